#!/bin/bash
# Re-run, for every seeded change, the check of its property against a scratch worktree of /repo HEAD carrying the change.
# Expected: exit 1 (VIOLATION) for every one.  usage: tools/regress_seeded.sh [ids...]   -> seeded/REGRESSION.txt
cd "$(dirname "$0")/.."
IDS=${@:-$(ls seeded | grep -E '^C[0-9]+_')}
OUT=seeded/REGRESSION.txt
[ $# -eq 0 ] && { echo "# regression of the seeded changes against /repo $(git -C /repo log --format=%h -1), /verif $(git log --format=%h -1)" > $OUT; }
for n in $IDS; do
  cid=${n%%_*}
  W=/tmp/wt/rg_$n
  git -C /repo worktree add --detach $W HEAD >/dev/null 2>&1 || { echo "$n worktree-failed" | tee -a $OUT; continue; }
  if git -C $W apply /verif/seeded/$n/patch.diff 2>/dev/null; then
    out=$(VERIF_REPO=$W timeout 3000 python3 run_check.py $cid 2>&1); rc=$?
    nv=$(echo "$out" | grep -c "^VIOLATION")
    echo "$n check=$cid rc=$rc violations=$nv $( [ $rc -eq 1 ] && echo DETECTED || echo NOT-DETECTED )" | tee -a $OUT
  else
    echo "$n patch-does-not-apply" | tee -a $OUT
  fi
  git -C /repo worktree remove --force $W
  rm -rf build/alt-$(python3 -c "import hashlib,sys;print(hashlib.sha1(sys.argv[1].encode()).hexdigest()[:10])" $W)
done
