#!/bin/bash
# usage: tools/sweep.sh <tier> <seed> [ids...]   - runs checks one after another, prints the summary line of each
cd "$(dirname "$0")/.."
TIER=${1:-quick}; SEED=${2:-0}; shift 2
IDS=${@:-C01 C02 C03 C04 C05 C06 C07 C08 C09 C10 C11 C12 C13 C14 C15 C16 C17 C18 C19 C20}
python3 run_check.py setup >/dev/null 2>&1
for c in $IDS; do
  out=$(python3 run_check.py $c --tier $TIER --seed $SEED 2>&1); rc=$?
  echo "$out" | grep -E "VIOLATION|KNOWN-FINDING|HARNESS" | head -20
  echo "$out" | tail -1
  echo "rc=$rc id=$c tier=$TIER seed=$SEED"
done
