#!/bin/bash
# usage: tools/confirm_seeded.sh <worktree-with-change> <name> <check ids...>
# Runs the named checks (quick tier) against a checkout carrying a seeded change (VERIF_REPO), without touching /repo,
# and stores the patch + demonstration + verdicts under seeded/<name>/.
cd "$(dirname "$0")/.."
WT=$1; NAME=$2; shift 2
D=seeded/$NAME; mkdir -p $D
git -C $WT diff > $D/patch.diff
for f in demo.py demo_output.txt demo_output_clean.txt meta.json; do [ -f $WT/MUTATION/$f ] && cp $WT/MUTATION/$f $D/; done
: > $D/verdict.txt
if [ -f $WT/MUTATION/demo.py ]; then (cd $WT && PYTHONPATH=$WT OMP_NUM_THREADS=${DEMO_THREADS:-4} timeout 1200 /venv/bin/python MUTATION/demo.py 2>&1 | grep -v -i "warn" | tail -15) > $D/demo_rerun.txt; echo "--- demo rerun (tail)"; tail -6 $D/demo_rerun.txt; fi
for c in "$@"; do
  out=$(VERIF_REPO=$WT python3 run_check.py $c --tier ${TIER:-quick} 2>&1); rc=$?
  echo "== $c rc=$rc: $(echo "$out" | tail -1)" | tee -a $D/verdict.txt
  echo "$out" | grep -E "^  key:|^  what:" | head -6 | tee -a $D/verdict.txt
done
