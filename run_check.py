#!/usr/bin/env python3
"""Single entry point:  python3 run_check.py C07 [--tier quick|thorough] [--replay FILE]

Re-executes itself under /venv/bin/python with a deterministic environment.
Exit 0: property held on everything explored (KNOWN-FINDING lines allowed);
exit 1: at least one `VIOLATION property=<ID> replay=<path>` line;
exit 2: harness error (never accompanied by a VIOLATION line)."""
import os
import sys

VERIF = os.path.dirname(os.path.abspath(__file__))
VENV_PY = "/venv/bin/python"


def _reexec():
    sys.path.insert(0, VERIF)
    from mc.boot import det_env

    env = det_env()
    env["VERIF_REEXEC"] = "1"
    os.execve(VENV_PY, [VENV_PY, os.path.abspath(__file__)] + sys.argv[1:], env)


def main():
    if os.environ.get("VERIF_REEXEC") != "1" or os.path.realpath(sys.executable) != os.path.realpath(VENV_PY):
        if os.environ.get("VERIF_REEXEC") != "1":
            _reexec()
    sys.path.insert(0, VERIF)
    os.chdir(VERIF)
    import argparse

    ap = argparse.ArgumentParser()
    ap.add_argument("cid")
    ap.add_argument("--tier", default=os.environ.get("VERIF_TIER", "quick"), choices=["quick", "thorough"])
    ap.add_argument("--seed", type=int, default=int(os.environ.get("VERIF_SEED", "0") or 0))
    ap.add_argument("--replay", default=None)
    ap.add_argument("--json", action="store_true")
    ap.add_argument("--nproc", type=int, default=None)
    a = ap.parse_args()
    if a.cid == "setup":
        from mc.build import build

        for v in ("plain", "sched", "asan", "tsan"):
            print(build(v, quiet=False))
        import subprocess

        subprocess.call([sys.executable, os.path.join(VERIF, "mc", "warm.py")])
        return 0
    from mc.runner import main as run

    return run(a.cid.upper(), a.tier, a.seed, replay=a.replay, as_json=a.json, nproc=a.nproc)


if __name__ == "__main__":
    try:
        rc = main()
    except SystemExit:
        raise
    except BaseException:
        import traceback

        traceback.print_exc()
        print("HARNESS-ERROR: uncaught exception in the runner")
        rc = 2
    sys.exit(rc)
