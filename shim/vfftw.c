/* vfftw: an executable model of the part of the FFTW3 advanced interface that
 * ciderpress/lib/fft_wrapper/cider_fft.c uses (DESIGN.md section 3.5, appendix B).
 *
 *  - documented addressing semantics of fftw_plan_many_dft{,_r2c,_c2r}
 *    (rank, n, howmany, embed, stride, dist; NULL embed conventions, incl. the
 *    padded in-place real layout);
 *  - naive O(N * sum n_k) separable DFT per transform, unnormalised, sign as FFTW;
 *  - every address derived from the plan is checked against the allocation that
 *    fftw_malloc registered for the base pointer *before* it is touched; a bad
 *    address is not dereferenced, it is recorded (vfftw_error_count/message);
 *  - red zones around each allocation are verified on free / destroy.
 *
 * This says nothing about the real FFTW binary (absent from the image).       */
#include "fftw3.h"
#include <math.h>
#include <stdint.h>
#include <stdio.h>
#include <stdlib.h>
#include <string.h>

#ifndef RZ
#define RZ 64
#endif
#define MAXALLOC 4096
#define MAXRANK 8

typedef struct {
    unsigned char *user;
    size_t size;
    int live;
} alloc_t;

static alloc_t g_alloc[MAXALLOC];
static int g_nalloc = 0;
static long g_errors = 0;
static char g_msg[512] = "";
static long g_checked_addresses = 0;
static long g_unregistered_bases = 0;
static int g_nthreads_recorded = 0;
static int g_threads_inited = 0;
static long g_executes = 0;

static void vfftw_err(const char *fmt, long a, long b, long c) {
    if (g_errors == 0) {
        snprintf(g_msg, sizeof(g_msg), fmt, a, b, c);
    }
    g_errors++;
}

long vfftw_error_count(void) { return g_errors; }
const char *vfftw_error_message(void) { return g_msg; }
long vfftw_checked_addresses(void) { return g_checked_addresses; }
long vfftw_unregistered_bases(void) { return g_unregistered_bases; }
long vfftw_executes(void) { return g_executes; }
int vfftw_nthreads_recorded(void) { return g_nthreads_recorded; }
void vfftw_reset_errors(void) {
    g_errors = 0;
    g_msg[0] = 0;
    g_checked_addresses = 0;
    g_unregistered_bases = 0;
    g_executes = 0;
}
int vfftw_live_allocations(void) {
    int n = 0;
    for (int i = 0; i < g_nalloc; i++)
        n += g_alloc[i].live;
    return n;
}

void *fftw_malloc(size_t n) {
    unsigned char *raw = NULL;
    if (posix_memalign((void **)&raw, 64, n + 2 * RZ + (RZ ? 0 : 0)) != 0)
        return NULL;
    memset(raw, 0xA5, RZ);
    memset(raw + RZ + n, 0xA5, RZ);
    /* poison the payload with NaNs so that reads of never-written cells show */
    memset(raw + RZ, 0xFF, n);
    int slot = -1;
    for (int i = 0; i < g_nalloc; i++)
        if (!g_alloc[i].live) {
            slot = i;
            break;
        }
    if (slot < 0) {
        if (g_nalloc >= MAXALLOC) {
            vfftw_err("vfftw: allocation table full", 0, 0, 0);
            return raw + RZ;
        }
        slot = g_nalloc++;
    }
    g_alloc[slot].user = raw + RZ;
    g_alloc[slot].size = n;
    g_alloc[slot].live = 1;
    return raw + RZ;
}

static int check_redzones(alloc_t *a) {
    unsigned char *raw = a->user - RZ;
    for (int i = 0; i < RZ; i++) {
        if (raw[i] != 0xA5 || raw[RZ + a->size + i] != 0xA5)
            return 1;
    }
    return 0;
}

static alloc_t *find_alloc(const void *p) {
    const unsigned char *c = (const unsigned char *)p;
    for (int i = 0; i < g_nalloc; i++) {
        if (g_alloc[i].live && c >= g_alloc[i].user &&
            c < g_alloc[i].user + g_alloc[i].size + (g_alloc[i].size == 0))
            return &g_alloc[i];
    }
    return NULL;
}

void fftw_free(void *p) {
    if (p == NULL)
        return;
    for (int i = 0; i < g_nalloc; i++) {
        if (g_alloc[i].live && g_alloc[i].user == (unsigned char *)p) {
            if (check_redzones(&g_alloc[i]))
                vfftw_err("vfftw: red zone of a %ld-byte allocation was overwritten",
                          (long)g_alloc[i].size, 0, 0);
            g_alloc[i].live = 0;
            free(g_alloc[i].user - RZ);
            return;
        }
    }
    vfftw_err("vfftw: fftw_free of a pointer not returned by fftw_malloc", 0, 0, 0);
}

int fftw_init_threads(void) {
    g_threads_inited = 1;
    return 1;
}
void fftw_plan_with_nthreads(int nthreads) { g_nthreads_recorded = nthreads; }

enum { K_C2C = 0, K_R2C = 1, K_C2R = 2 };

struct vfftw_plan_s {
    int kind, rank, howmany, sign;
    int n[MAXRANK];
    int inembed[MAXRANK], onembed[MAXRANK];
    long istride, idist, ostride, odist;
    void *in, *out;
};

static fftw_plan mkplan(int kind, int rank, const int *n, int howmany, void *in,
                        const int *inembed, int istride, int idist, void *out,
                        const int *onembed, int ostride, int odist, int sign) {
    if (rank < 1 || rank > MAXRANK) {
        vfftw_err("vfftw: unsupported rank %ld", rank, 0, 0);
        return NULL;
    }
    struct vfftw_plan_s *p = calloc(1, sizeof(*p));
    p->kind = kind;
    p->rank = rank;
    p->howmany = howmany;
    p->sign = sign;
    p->in = in;
    p->out = out;
    p->istride = istride;
    p->idist = idist;
    p->ostride = ostride;
    p->odist = odist;
    int inplace = (in == out);
    for (int k = 0; k < rank; k++) {
        if (n[k] < 1)
            vfftw_err("vfftw: non-positive dimension %ld", n[k], 0, 0);
        p->n[k] = n[k];
        int last = (k == rank - 1);
        /* logical sizes of the input and output arrays */
        int in_logical = n[k], out_logical = n[k];
        if (last && kind == K_R2C) {
            out_logical = n[k] / 2 + 1;
            in_logical = inplace ? 2 * (n[k] / 2 + 1) : n[k];
        }
        if (last && kind == K_C2R) {
            in_logical = n[k] / 2 + 1;
            out_logical = inplace ? 2 * (n[k] / 2 + 1) : n[k];
        }
        p->inembed[k] = inembed ? inembed[k] : in_logical;
        p->onembed[k] = onembed ? onembed[k] : out_logical;
    }
    return p;
}

fftw_plan fftw_plan_many_dft(int rank, const int *n, int howmany, fftw_complex *in,
                             const int *inembed, int istride, int idist,
                             fftw_complex *out, const int *onembed, int ostride,
                             int odist, int sign, unsigned flags) {
    (void)flags;
    return mkplan(K_C2C, rank, n, howmany, in, inembed, istride, idist, out, onembed,
                  ostride, odist, sign);
}
fftw_plan fftw_plan_many_dft_r2c(int rank, const int *n, int howmany, double *in,
                                 const int *inembed, int istride, int idist,
                                 fftw_complex *out, const int *onembed, int ostride,
                                 int odist, unsigned flags) {
    (void)flags;
    return mkplan(K_R2C, rank, n, howmany, in, inembed, istride, idist, out, onembed,
                  ostride, odist, FFTW_FORWARD);
}
fftw_plan fftw_plan_many_dft_c2r(int rank, const int *n, int howmany,
                                 fftw_complex *in, const int *inembed, int istride,
                                 int idist, double *out, const int *onembed,
                                 int ostride, int odist, unsigned flags) {
    (void)flags;
    return mkplan(K_C2R, rank, n, howmany, in, inembed, istride, idist, out, onembed,
                  ostride, odist, FFTW_BACKWARD);
}

void fftw_destroy_plan(fftw_plan p) {
    if (p == NULL)
        return;
    free(p);
}

/* offset (in elements) of logical index j[] inside an array with physical dims embed[] */
static long lin(const int *j, const int *embed, int rank) {
    long o = 0;
    for (int k = 0; k < rank; k++)
        o = o * embed[k] + j[k];
    return o;
}

static int addr_ok(alloc_t *a, const void *base, long elem_off, size_t elsize) {
    if (a == NULL)
        return 1; /* base not from fftw_malloc: cannot check (counted) */
    g_checked_addresses++;
    const unsigned char *p = (const unsigned char *)base + elem_off * (long)elsize;
    if (p < a->user || p + elsize > a->user + a->size) {
        vfftw_err("vfftw: access at byte offset %ld (+%ld) outside allocation of %ld bytes",
                  (long)(p - a->user), (long)elsize, (long)a->size);
        return 0;
    }
    return 1;
}

/* in-place separable DFT of a dense row-major complex array w[ntot][2] */
static void dense_dft(double *w, const int *n, int rank, int sign) {
    long ntot = 1;
    for (int k = 0; k < rank; k++)
        ntot *= n[k];
    int nmax = 0;
    for (int k = 0; k < rank; k++)
        if (n[k] > nmax)
            nmax = n[k];
    double *tmp = malloc(sizeof(double) * 2 * nmax);
    for (int ax = 0; ax < rank; ax++) {
        long inner = 1;
        for (int k = ax + 1; k < rank; k++)
            inner *= n[k];
        long outer = ntot / (inner * n[ax]);
        int m = n[ax];
        for (long o = 0; o < outer; o++)
            for (long i = 0; i < inner; i++) {
                double *b = w + 2 * (o * m * inner + i);
                for (int q = 0; q < m; q++) {
                    double sr = 0, si = 0;
                    for (int r = 0; r < m; r++) {
                        long pr = ((long)q * r) % m;
                        double ang = sign * 2.0 * M_PI * (double)pr / (double)m;
                        double c = cos(ang), s = sin(ang);
                        double xr = b[2 * r * inner], xi = b[2 * r * inner + 1];
                        sr += xr * c - xi * s;
                        si += xr * s + xi * c;
                    }
                    tmp[2 * q] = sr;
                    tmp[2 * q + 1] = si;
                }
                for (int q = 0; q < m; q++) {
                    b[2 * q * inner] = tmp[2 * q];
                    b[2 * q * inner + 1] = tmp[2 * q + 1];
                }
            }
    }
    free(tmp);
}

void fftw_execute(const fftw_plan p) {
    if (p == NULL) {
        vfftw_err("vfftw: execute of NULL plan", 0, 0, 0);
        return;
    }
    g_executes++;
    int rank = p->rank;
    long ntot = 1;
    for (int k = 0; k < rank; k++)
        ntot *= p->n[k];
    int nh[MAXRANK]; /* half-complex logical dims */
    for (int k = 0; k < rank; k++)
        nh[k] = p->n[k];
    nh[rank - 1] = p->n[rank - 1] / 2 + 1;
    long nhtot = 1;
    for (int k = 0; k < rank; k++)
        nhtot *= nh[k];

    alloc_t *ain = find_alloc(p->in), *aout = find_alloc(p->out);
    if (ain == NULL || aout == NULL)
        g_unregistered_bases++;
    /* the checked base is the allocation start, offsets are relative to p->in */
    double *work = malloc(sizeof(double) * 2 * ntot * p->howmany);
    int j[MAXRANK];
    /* ---- gather all inputs first (in-place safe) ---- */
    for (int t = 0; t < p->howmany; t++) {
        double *w = work + 2 * ntot * t;
        if (p->kind == K_C2C || p->kind == K_R2C) {
            for (long e = 0; e < ntot; e++) {
                long r = e;
                for (int k = rank - 1; k >= 0; k--) {
                    j[k] = r % p->n[k];
                    r /= p->n[k];
                }
                long off = t * p->idist + lin(j, p->inembed, rank) * p->istride;
                if (p->kind == K_C2C) {
                    if (addr_ok(ain, p->in, off, 2 * sizeof(double))) {
                        w[2 * e] = ((double *)p->in)[2 * off];
                        w[2 * e + 1] = ((double *)p->in)[2 * off + 1];
                    } else {
                        w[2 * e] = w[2 * e + 1] = NAN;
                    }
                } else {
                    if (addr_ok(ain, p->in, off, sizeof(double))) {
                        w[2 * e] = ((double *)p->in)[off];
                    } else {
                        w[2 * e] = NAN;
                    }
                    w[2 * e + 1] = 0.0;
                }
            }
        } else { /* C2R: read half spectrum, Hermitian-extend */
            double *half = malloc(sizeof(double) * 2 * nhtot);
            for (long e = 0; e < nhtot; e++) {
                long r = e;
                for (int k = rank - 1; k >= 0; k--) {
                    j[k] = r % nh[k];
                    r /= nh[k];
                }
                long off = t * p->idist + lin(j, p->inembed, rank) * p->istride;
                if (addr_ok(ain, p->in, off, 2 * sizeof(double))) {
                    half[2 * e] = ((double *)p->in)[2 * off];
                    half[2 * e + 1] = ((double *)p->in)[2 * off + 1];
                } else {
                    half[2 * e] = half[2 * e + 1] = NAN;
                }
            }
            for (long e = 0; e < ntot; e++) {
                long r = e;
                for (int k = rank - 1; k >= 0; k--) {
                    j[k] = r % p->n[k];
                    r /= p->n[k];
                }
                if (j[rank - 1] < nh[rank - 1]) {
                    long h = lin(j, nh, rank);
                    w[2 * e] = half[2 * h];
                    w[2 * e + 1] = half[2 * h + 1];
                } else {
                    int jj[MAXRANK];
                    for (int k = 0; k < rank; k++)
                        jj[k] = (p->n[k] - j[k]) % p->n[k];
                    long h = lin(jj, nh, rank);
                    w[2 * e] = half[2 * h];
                    w[2 * e + 1] = -half[2 * h + 1];
                }
            }
            free(half);
        }
    }
    /* ---- transform ---- */
    for (int t = 0; t < p->howmany; t++)
        dense_dft(work + 2 * ntot * t, p->n, rank, p->sign);
    /* ---- scatter ---- */
    for (int t = 0; t < p->howmany; t++) {
        double *w = work + 2 * ntot * t;
        if (p->kind == K_C2C) {
            for (long e = 0; e < ntot; e++) {
                long r = e;
                for (int k = rank - 1; k >= 0; k--) {
                    j[k] = r % p->n[k];
                    r /= p->n[k];
                }
                long off = t * p->odist + lin(j, p->onembed, rank) * p->ostride;
                if (addr_ok(aout, p->out, off, 2 * sizeof(double))) {
                    ((double *)p->out)[2 * off] = w[2 * e];
                    ((double *)p->out)[2 * off + 1] = w[2 * e + 1];
                }
            }
        } else if (p->kind == K_R2C) {
            for (long e = 0; e < nhtot; e++) {
                long r = e;
                for (int k = rank - 1; k >= 0; k--) {
                    j[k] = r % nh[k];
                    r /= nh[k];
                }
                long src = lin(j, p->n, rank);
                long off = t * p->odist + lin(j, p->onembed, rank) * p->ostride;
                if (addr_ok(aout, p->out, off, 2 * sizeof(double))) {
                    ((double *)p->out)[2 * off] = w[2 * src];
                    ((double *)p->out)[2 * off + 1] = w[2 * src + 1];
                }
            }
        } else {
            for (long e = 0; e < ntot; e++) {
                long r = e;
                for (int k = rank - 1; k >= 0; k--) {
                    j[k] = r % p->n[k];
                    r /= p->n[k];
                }
                long off = t * p->odist + lin(j, p->onembed, rank) * p->ostride;
                if (addr_ok(aout, p->out, off, sizeof(double))) {
                    ((double *)p->out)[off] = w[2 * e];
                }
            }
        }
    }
    free(work);
    if (ain && check_redzones(ain))
        vfftw_err("vfftw: red zone of input allocation (%ld bytes) overwritten",
                  (long)ain->size, 0, 0);
    if (aout && check_redzones(aout))
        vfftw_err("vfftw: red zone of output allocation (%ld bytes) overwritten",
                  (long)aout->size, 0, 0);
}
