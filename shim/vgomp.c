/* vgomp: a controllable OpenMP (GOMP ABI) runtime for model checking the real
 * CiderPress C code (DESIGN.md section 3.4, appendix A).
 *
 * It implements exactly the entry points gcc emits for the repository's sources:
 *   GOMP_parallel, GOMP_barrier, GOMP_loop_nonmonotonic_dynamic_start/next,
 *   GOMP_loop_dynamic_start/next, GOMP_loop_end, GOMP_loop_end_nowait,
 *   GOMP_critical_start/end, GOMP_single_start, omp_get_thread_num,
 *   omp_get_num_threads, omp_get_max_threads, omp_set_num_threads, omp_in_parallel
 * (static loops and reductions are inlined by gcc on top of these).
 *
 * mode 1 (controlled): team members are pthreads but exactly one holds the baton.
 *   Every synchronisation operation is a scheduling point; the choice among the
 *   enabled members (canonical order: running member first if still enabled, then
 *   ascending ids) is taken from a prefix supplied by the explorer, afterwards from
 *   the default policy.  (n_enabled, choice, me_enabled, kind) is recorded.
 * mode 0 (free running): same entry points on pthread mutex/cond/barrier so that
 *   ThreadSanitizer sees all synchronisation.
 *
 * Optional: __tsan_read/write hooks (used when objects were compiled with
 * -fsanitize=thread but libtsan is NOT loaded): an access whose return address is
 * in the configured race-pc set is an additional scheduling point.
 */
#define _GNU_SOURCE
#include <pthread.h>
#include <sched.h>
#include <semaphore.h>
#include <stdbool.h>
#include <stdint.h>
#include <stdio.h>
#include <stdlib.h>
#include <string.h>

#define MAXT 64
enum { ST_RUN = 0, ST_BARRIER = 1, ST_CRIT = 2, ST_DONE = 3 };
enum { VG_DEADLOCK = 1, VG_DIVERGE = 2, VG_INVARIANT = 4, VG_TRACE_OVERFLOW = 8 };

typedef struct {
    long start, end, incr, chunk, next;
    long niter;
    unsigned char *handed;
    int is_single, single_taken;
    int arrivals;
    int taken[MAXT]; /* free-running mode: chunks handed to each member (fair hand-out) */
    int total_taken;
} ws_t;

typedef struct team {
    int T;
    int controlled;
    volatile int state[MAXT];
    sem_t sem[MAXT];
    int t_ws[MAXT];
    int nbar[MAXT];
    ws_t *ws;
    int nws, capws;
    void (*fn)(void *);
    void *data;
    struct team *parent;
    pthread_mutex_t mu;
    pthread_barrier_t start; /* free-running mode: all members enter the region body together */
    volatile int spin; /* free-running mode: work-share bookkeeping lock, see ws_lock() */
    pthread_barrier_t bar;
} team_t;

/* Free-running mode (race pass under the real libtsan): the hand-out of loop chunks and the entry into a work-sharing
 * construct are NOT synchronisation the program may rely on (OpenMP orders nothing between iterations of a loop).  A
 * pthread mutex here would be intercepted by libtsan and would create happens-before edges between the iterations of
 * different threads, hiding races on variables that are wrongly shared between iterations whenever one thread happens to
 * fetch its chunk after another has finished.  This file is compiled without -fsanitize=thread, so a lock built from
 * compiler atomics is invisible to the detector.  Barriers, critical sections and thread creation / join keep using
 * pthread primitives: those ARE synchronisation. */
static inline void ws_lock(team_t *tm) {
    while (__atomic_exchange_n(&tm->spin, 1, __ATOMIC_ACQUIRE)) sched_yield();
}
static inline void ws_unlock(team_t *tm) { __atomic_store_n(&tm->spin, 0, __ATOMIC_RELEASE); }

typedef struct {
    team_t *tm;
    int id;
} member_arg_t;

static __thread team_t *tl_team = NULL;
static __thread int tl_id = 0;

/* configuration */
static int g_team = 1;
static int g_mode = 1;
static int g_policy = 0;
static int *g_prefix = NULL;
static int g_nprefix = 0;
/* trace */
#define TRACE_MAX (1 << 22)
static unsigned char *g_tr_nen = NULL, *g_tr_choice = NULL, *g_tr_me = NULL, *g_tr_kind = NULL;
static long g_ntrace = 0;
static int g_status = 0;
static char g_msg[256] = "";
static long g_regions = 0;
static int g_crit_owner = -1;
static pthread_mutex_t g_crit_mu = PTHREAD_MUTEX_INITIALIZER;
static uintptr_t *g_pcs = NULL;
static int g_npcs = 0;
static long g_race_hits = 0;
/* coverage: distinct outlined region functions entered since vgomp_clear_fns() */
#define MAXFNS 2048
static void *g_fns[MAXFNS];
static int g_nfns = 0;
static pthread_mutex_t g_fn_mu = PTHREAD_MUTEX_INITIALIZER;
static void note_fn(void *f) {
    pthread_mutex_lock(&g_fn_mu);
    int found = 0;
    for (int i = 0; i < g_nfns; i++)
        if (g_fns[i] == f) { found = 1; break; }
    if (!found && g_nfns < MAXFNS) g_fns[g_nfns++] = f;
    pthread_mutex_unlock(&g_fn_mu);
}
int vgomp_get_fns(void **out, int max) {
    int n = g_nfns < max ? g_nfns : max;
    for (int i = 0; i < n; i++) out[i] = g_fns[i];
    return g_nfns;
}
void vgomp_clear_fns(void) { g_nfns = 0; }

static void flag(int bit, const char *msg) {
    if (!(g_status & bit) && g_msg[0] == 0)
        snprintf(g_msg, sizeof(g_msg), "%s", msg);
    g_status |= bit;
}

/* ------------------------------------------------------------------ control API */
void vgomp_config(int team, int mode, int policy) {
    if (team < 1) team = 1;
    if (team > MAXT) team = MAXT;
    g_team = team;
    g_mode = mode;
    g_policy = policy;
}
void vgomp_set_prefix(const int *choices, int n) {
    free(g_prefix);
    g_prefix = NULL;
    g_nprefix = 0;
    if (n > 0) {
        g_prefix = malloc(sizeof(int) * n);
        memcpy(g_prefix, choices, sizeof(int) * n);
        g_nprefix = n;
    }
}
void vgomp_reset(void) {
    if (!g_tr_nen) {
        g_tr_nen = malloc(TRACE_MAX);
        g_tr_choice = malloc(TRACE_MAX);
        g_tr_me = malloc(TRACE_MAX);
        g_tr_kind = malloc(TRACE_MAX);
    }
    g_ntrace = 0;
    g_status = 0;
    g_msg[0] = 0;
    g_regions = 0;
    g_race_hits = 0;
    g_crit_owner = -1;
}
long vgomp_trace(unsigned char *nen, unsigned char *choice, unsigned char *me,
                 unsigned char *kind, long max) {
    long n = g_ntrace < max ? g_ntrace : max;
    if (n > 0 && nen) {
        memcpy(nen, g_tr_nen, n);
        memcpy(choice, g_tr_choice, n);
        memcpy(me, g_tr_me, n);
        memcpy(kind, g_tr_kind, n);
    }
    return g_ntrace;
}
int vgomp_status(void) { return g_status; }
const char *vgomp_message(void) { return g_msg; }
long vgomp_regions(void) { return g_regions; }
long vgomp_race_hits(void) { return g_race_hits; }
void vgomp_set_race_pcs(const uintptr_t *pcs, int n) {
    free(g_pcs);
    g_pcs = NULL;
    g_npcs = 0;
    if (n > 0) {
        g_pcs = malloc(sizeof(uintptr_t) * n);
        memcpy(g_pcs, pcs, sizeof(uintptr_t) * n);
        g_npcs = n;
    }
}

/* ------------------------------------------------------------------ scheduler */
static int enabled_p(team_t *tm, int i) {
    if (tm->state[i] == ST_RUN) return 1;
    if (tm->state[i] == ST_CRIT && g_crit_owner < 0) return 1;
    return 0;
}

static int pick(int n, int me_enabled, int me, const int *en) {
    long idx = g_ntrace;
    int c = 0;
    if (idx < g_nprefix) {
        c = g_prefix[idx];
        if (c < 0 || c >= n) {
            flag(VG_DIVERGE, "prefix choice out of range (replay diverged)");
            c = 0;
        }
    } else {
        switch (g_policy) {
        case 1: { /* round robin: smallest id greater than me, cyclically */
            int best = -1;
            for (int k = 0; k < n; k++)
                if (en[k] > me && (best < 0 || en[k] < en[best])) best = k;
            if (best < 0) {
                for (int k = 0; k < n; k++)
                    if (en[k] != me && (best < 0 || en[k] < en[best])) best = k;
            }
            c = best < 0 ? 0 : best;
            break;
        }
        case 2: { /* highest id first */
            int best = 0;
            for (int k = 1; k < n; k++)
                if (en[k] > en[best]) best = k;
            c = best;
            break;
        }
        case 3: /* always switch away from the running member if possible */
            c = (me_enabled && n > 1) ? 1 : 0;
            break;
        case 4: /* last in canonical order */
            c = n - 1;
            break;
        default:
            c = 0;
        }
    }
    return c;
}

/* Called by member `me` while holding the baton. Returns when `me` holds it again
 * (or immediately if `me` is DONE and is not the master). */
static void schedule(team_t *tm, int me, int kind) {
    int en[MAXT];
    for (;;) {
        int n = 0;
        if (enabled_p(tm, me)) en[n++] = me;
        for (int i = 0; i < tm->T; i++)
            if (i != me && enabled_p(tm, i)) en[n++] = i;
        if (n == 0) {
            int ndone = 0, nbar = 0, ncrit = 0;
            for (int i = 0; i < tm->T; i++) {
                if (tm->state[i] == ST_DONE) ndone++;
                else if (tm->state[i] == ST_BARRIER) nbar++;
                else if (tm->state[i] == ST_CRIT) ncrit++;
            }
            if (ndone == tm->T) {
                if (me != 0) sem_post(&tm->sem[0]);
                return;
            }
            if (nbar > 0 && ncrit == 0 && ndone == 0) {
                for (int i = 0; i < tm->T; i++) tm->state[i] = ST_RUN;
                continue;
            }
            /* deadlock: some members wait at a barrier others never reach, or wait
             * for a critical section whose owner is blocked.  Record, then force
             * progress so that control returns to the explorer. */
            flag(VG_DEADLOCK, "deadlock: no enabled member while some are not finished");
            g_crit_owner = -1;
            for (int i = 0; i < tm->T; i++)
                if (tm->state[i] == ST_BARRIER) tm->state[i] = ST_RUN;
            continue;
        }
        int next;
        if (n == 1) {
            next = en[0];
        } else {
            int me_en = (en[0] == me);
            int c = pick(n, me_en, me, en);
            if (g_ntrace < TRACE_MAX) {
                g_tr_nen[g_ntrace] = (unsigned char)n;
                g_tr_choice[g_ntrace] = (unsigned char)c;
                g_tr_me[g_ntrace] = (unsigned char)me_en;
                g_tr_kind[g_ntrace] = (unsigned char)kind;
            } else {
                flag(VG_TRACE_OVERFLOW, "trace overflow");
            }
            g_ntrace++;
            next = en[c];
        }
        if (next == me) return;
        sem_post(&tm->sem[next]);
        if (tm->state[me] != ST_DONE || me == 0) sem_wait(&tm->sem[me]);
        return;
    }
}

/* ------------------------------------------------------------------ team */
static void team_check_end(team_t *tm) {
    for (int i = 1; i < tm->T; i++) {
        if (tm->t_ws[i] != tm->t_ws[0])
            flag(VG_INVARIANT, "members encountered different numbers of work-sharing constructs");
        if (tm->nbar[i] != tm->nbar[0])
            flag(VG_INVARIANT, "members executed different numbers of barriers");
    }
    for (int k = 0; k < tm->nws; k++) {
        ws_t *w = &tm->ws[k];
        if (w->is_single) continue;
        for (long it = 0; it < w->niter; it++)
            if (w->handed[it] != 1) {
                flag(VG_INVARIANT, "work-sharing loop iteration not handed out exactly once");
                break;
            }
    }
}

static void *member_main(void *argp) {
    member_arg_t *a = (member_arg_t *)argp;
    team_t *tm = a->tm;
    int id = a->id;
    tl_team = tm;
    tl_id = id;
    if (tm->controlled) {
        sem_wait(&tm->sem[id]);
        tm->fn(tm->data);
        tm->state[id] = ST_DONE;
        schedule(tm, id, 'E');
    } else {
        pthread_barrier_wait(&tm->start);
        tm->fn(tm->data);
    }
    tl_team = NULL;
    tl_id = 0;
    return NULL;
}

void GOMP_parallel(void (*fn)(void *), void *data, unsigned num_threads,
                   unsigned flags) {
    (void)flags;
    team_t *parent = tl_team;
    int parent_id = tl_id;
    team_t tm;
    memset(&tm, 0, sizeof(tm));
    tm.T = num_threads ? (int)num_threads : g_team;
    if (parent != NULL) tm.T = 1; /* nested regions are serialised */
    if (tm.T > MAXT) tm.T = MAXT;
    tm.controlled = (g_mode == 1);
    tm.fn = fn;
    tm.data = data;
    tm.parent = parent;
    g_regions++;
    note_fn((void *)fn);
    if (tm.T == 1) {
        tl_team = &tm;
        tl_id = 0;
        fn(data);
        tl_team = parent;
        tl_id = parent_id;
        if (!parent) team_check_end(&tm);
        for (int k = 0; k < tm.nws; k++) free(tm.ws[k].handed);
        free(tm.ws);
        return;
    }
    pthread_t th[MAXT];
    member_arg_t args[MAXT];
    pthread_mutex_init(&tm.mu, NULL);
    tm.spin = 0;
    if (tm.controlled) {
        for (int i = 0; i < tm.T; i++) {
            sem_init(&tm.sem[i], 0, 0);
            tm.state[i] = ST_RUN;
        }
    } else {
        pthread_barrier_init(&tm.bar, NULL, tm.T);
        pthread_barrier_init(&tm.start, NULL, tm.T);
    }
    pthread_attr_t attr;
    pthread_attr_init(&attr);
    pthread_attr_setstacksize(&attr, 16u << 20);
    for (int i = 1; i < tm.T; i++) {
        args[i].tm = &tm;
        args[i].id = i;
        pthread_create(&th[i], &attr, member_main, &args[i]);
    }
    pthread_attr_destroy(&attr);
    tl_team = &tm;
    tl_id = 0;
    if (tm.controlled) {
        schedule(&tm, 0, 'S'); /* who starts */
        fn(data);
        tm.state[0] = ST_DONE;
        schedule(&tm, 0, 'E');
    } else {
        pthread_barrier_wait(&tm.start);
        fn(data);
    }
    for (int i = 1; i < tm.T; i++) pthread_join(th[i], NULL);
    tl_team = parent;
    tl_id = parent_id;
    if (tm.controlled) {
        team_check_end(&tm);
        for (int i = 0; i < tm.T; i++) sem_destroy(&tm.sem[i]);
    } else {
        pthread_barrier_destroy(&tm.bar);
        pthread_barrier_destroy(&tm.start);
    }
    pthread_mutex_destroy(&tm.mu);
    for (int k = 0; k < tm.nws; k++) free(tm.ws[k].handed);
    free(tm.ws);
}

void GOMP_barrier(void) {
    team_t *tm = tl_team;
    if (!tm || tm->T == 1) return;
    if (tm->controlled) {
        tm->nbar[tl_id]++;
        tm->state[tl_id] = ST_BARRIER;
        schedule(tm, tl_id, 'B');
    } else {
        pthread_barrier_wait(&tm->bar);
    }
}

/* returns the work-share instance for the construct the calling member is entering */
static ws_t *ws_enter(team_t *tm, int me, int is_single, long start, long end,
                      long incr, long chunk) {
    int k = tm->t_ws[me]++;
    if (k >= tm->nws) {
        if (k >= tm->capws) {
            tm->capws = tm->capws ? 2 * tm->capws : 16;
            tm->ws = realloc(tm->ws, sizeof(ws_t) * tm->capws);
        }
        ws_t *w = &tm->ws[k];
        memset(w, 0, sizeof(*w));
        w->is_single = is_single;
        if (!is_single) {
            w->start = start;
            w->end = end;
            w->incr = incr;
            w->chunk = chunk < 1 ? 1 : chunk;
            w->next = start;
            if (incr > 0)
                w->niter = end > start ? (end - start + incr - 1) / incr : 0;
            else
                w->niter = start > end ? (start - end - incr - 1) / (-incr) : 0;
            w->handed = calloc(w->niter > 0 ? w->niter : 1, 1);
        }
        tm->nws = k + 1;
    } else {
        ws_t *w = &tm->ws[k];
        if (w->is_single != is_single ||
            (!is_single && (w->start != start || w->end != end || w->incr != incr)))
            flag(VG_INVARIANT, "members disagree on the bounds of a work-sharing construct");
    }
    tm->ws[k].arrivals++;
    return &tm->ws[k];
}

static bool ws_take(ws_t *w, long *istart, long *iend) {
    if (w->niter <= 0) return false;
    long done = (w->next - w->start) / w->incr;
    if (done >= w->niter) return false;
    long cnt = w->chunk;
    if (done + cnt > w->niter) cnt = w->niter - done;
    *istart = w->next;
    *iend = w->next + cnt * w->incr;
    for (long it = done; it < done + cnt; it++) w->handed[it]++;
    w->next = *iend;
    return true;
}

static bool dyn_next(long *istart, long *iend) {
    team_t *tm = tl_team;
    int me = tl_id;
    ws_t *w;
    bool r;
    if (tm->controlled && tm->T > 1) {
        schedule(tm, me, 'D');
        w = &tm->ws[tm->t_ws[me] - 1];
        r = ws_take(w, istart, iend);
    } else {
        /* fair hand-out: a member that is more than one chunk ahead of an even share politely lets the others in
         * (bounded: it never waits for a member that may be blocked elsewhere) - otherwise the first thread to start
         * takes every chunk of a short loop and no two threads ever execute iterations concurrently */
        for (int polite = 0;; polite++) {
            if (tm->T > 1) ws_lock(tm);
            w = &tm->ws[tm->t_ws[me] - 1];
            if (tm->T > 1 && polite < 2000 && (long)w->taken[me] * tm->T > (long)w->total_taken + tm->T - 1 &&
                (w->next - w->start) / (w->incr ? w->incr : 1) < w->niter) {
                ws_unlock(tm);
                sched_yield();
                continue;
            }
            r = ws_take(w, istart, iend);
            if (r) {
                w->taken[me]++;
                w->total_taken++;
            }
            if (tm->T > 1) ws_unlock(tm);
            break;
        }
    }
    return r;
}

static bool dyn_start(long start, long end, long incr, long chunk, long *istart,
                      long *iend) {
    team_t *tm = tl_team;
    int me = tl_id;
    team_t solo;
    if (!tm) { /* orphaned work-sharing construct: team of one */
        (void)solo;
        *istart = start;
        *iend = end;
        return (incr > 0) ? (start < end) : (start > end);
    }
    if (tm->controlled || tm->T == 1) {
        ws_enter(tm, me, 0, start, end, incr, chunk);
    } else {
        ws_lock(tm);
        ws_enter(tm, me, 0, start, end, incr, chunk);
        ws_unlock(tm);
    }
    return dyn_next(istart, iend);
}

bool GOMP_loop_nonmonotonic_dynamic_start(long start, long end, long incr, long chunk,
                                          long *istart, long *iend) {
    return dyn_start(start, end, incr, chunk, istart, iend);
}
bool GOMP_loop_nonmonotonic_dynamic_next(long *istart, long *iend) {
    if (!tl_team) return false;
    return dyn_next(istart, iend);
}
bool GOMP_loop_dynamic_start(long start, long end, long incr, long chunk, long *istart,
                             long *iend) {
    return dyn_start(start, end, incr, chunk, istart, iend);
}
bool GOMP_loop_dynamic_next(long *istart, long *iend) {
    if (!tl_team) return false;
    return dyn_next(istart, iend);
}
/* guided is allowed to be implemented as dynamic */
bool GOMP_loop_nonmonotonic_guided_start(long start, long end, long incr, long chunk,
                                         long *istart, long *iend) {
    return dyn_start(start, end, incr, chunk, istart, iend);
}
bool GOMP_loop_nonmonotonic_guided_next(long *istart, long *iend) {
    if (!tl_team) return false;
    return dyn_next(istart, iend);
}

void GOMP_loop_end(void) { GOMP_barrier(); }
void GOMP_loop_end_nowait(void) {}

bool GOMP_single_start(void) {
    team_t *tm = tl_team;
    if (!tm) return true;
    int me = tl_id;
    bool r;
    if (tm->controlled || tm->T == 1) {
        if (tm->T > 1) schedule(tm, me, 'G');
        ws_t *w = ws_enter(tm, me, 1, 0, 0, 0, 0);
        r = !w->single_taken;
        w->single_taken = 1;
    } else {
        ws_lock(tm);
        ws_t *w = ws_enter(tm, me, 1, 0, 0, 0, 0);
        r = !w->single_taken;
        w->single_taken = 1;
        ws_unlock(tm);
    }
    return r;
}

void GOMP_critical_start(void) {
    team_t *tm = tl_team;
    if (!tm || tm->T == 1) return;
    if (tm->controlled) {
        tm->state[tl_id] = ST_CRIT;
        schedule(tm, tl_id, 'C');
        if (g_crit_owner >= 0) flag(VG_INVARIANT, "critical section entered while owned");
        g_crit_owner = tl_id;
        tm->state[tl_id] = ST_RUN;
    } else {
        pthread_mutex_lock(&g_crit_mu);
    }
}
void GOMP_critical_end(void) {
    team_t *tm = tl_team;
    if (!tm || tm->T == 1) return;
    if (tm->controlled) {
        g_crit_owner = -1;
        schedule(tm, tl_id, 'c');
    } else {
        pthread_mutex_unlock(&g_crit_mu);
    }
}
void GOMP_critical_name_start(void **p) { (void)p; GOMP_critical_start(); }
void GOMP_critical_name_end(void **p) { (void)p; GOMP_critical_end(); }
void GOMP_atomic_start(void) { GOMP_critical_start(); }
void GOMP_atomic_end(void) { GOMP_critical_end(); }

int omp_get_thread_num(void) { return tl_team ? tl_id : 0; }
int omp_get_num_threads(void) { return tl_team ? tl_team->T : 1; }
int omp_get_max_threads(void) { return g_team; }
void omp_set_num_threads(int n) { if (n >= 1) g_team = n > MAXT ? MAXT : n; }
int omp_in_parallel(void) { return tl_team != NULL && tl_team->T > 1; }
int omp_get_num_procs(void) { return g_team; }
double omp_get_wtime(void) { return 0.0; }

/* ------------------------------------------------------------------ tsan hooks
 * Only used when the real libtsan is not loaded (its symbols come first in the
 * global scope when it is LD_PRELOADed). */
/* A promoted racing access is a scheduling point BEFORE the access (the hook runs before it) and arms a second point at
 * the member's next instrumented access, i.e. just AFTER it: a lost update or a stale read needs the other member to run
 * between this member's write and its own later use of the value (which may sit in uninstrumented code, e.g. BLAS). */
static __thread int tl_after = 0;
static inline void race_point(void *ra) {
    team_t *tm = tl_team;
    if (g_npcs == 0 || !tm || !tm->controlled || tm->T == 1) return;
    if (tl_after) {
        tl_after = 0;
        g_race_hits++;
        schedule(tm, tl_id, 'R');
    }
    uintptr_t pc = (uintptr_t)ra;
    int lo = 0, hi = g_npcs - 1;
    while (lo <= hi) {
        int mid = (lo + hi) / 2;
        if (g_pcs[mid] == pc) {
            g_race_hits++;
            schedule(tm, tl_id, 'R');
            tl_after = 1;
            return;
        }
        if (g_pcs[mid] < pc) lo = mid + 1;
        else hi = mid - 1;
    }
}
#define TSAN_HOOK(name) \
    void name(void *addr) { (void)addr; race_point(__builtin_return_address(0)); }
TSAN_HOOK(__tsan_read1) TSAN_HOOK(__tsan_read2) TSAN_HOOK(__tsan_read4)
TSAN_HOOK(__tsan_read8) TSAN_HOOK(__tsan_read16)
TSAN_HOOK(__tsan_write1) TSAN_HOOK(__tsan_write2) TSAN_HOOK(__tsan_write4)
TSAN_HOOK(__tsan_write8) TSAN_HOOK(__tsan_write16)
TSAN_HOOK(__tsan_unaligned_read2) TSAN_HOOK(__tsan_unaligned_read4)
TSAN_HOOK(__tsan_unaligned_read8) TSAN_HOOK(__tsan_unaligned_read16)
TSAN_HOOK(__tsan_unaligned_write2) TSAN_HOOK(__tsan_unaligned_write4)
TSAN_HOOK(__tsan_unaligned_write8) TSAN_HOOK(__tsan_unaligned_write16)
void __tsan_read_range(void *a, unsigned long n) { (void)a; (void)n; race_point(__builtin_return_address(0)); }
void __tsan_write_range(void *a, unsigned long n) { (void)a; (void)n; race_point(__builtin_return_address(0)); }
static inline void after_point(void) {
    team_t *tm = tl_team;
    if (tl_after && tm && tm->controlled && tm->T > 1) {
        tl_after = 0;
        g_race_hits++;
        schedule(tm, tl_id, 'R');
    }
}
void __tsan_func_entry(void *pc) { (void)pc; after_point(); }
void __tsan_func_exit(void) { after_point(); }
void __tsan_init(void) {}
void __tsan_vptr_update(void **a, void *b) { (void)a; (void)b; }
void __tsan_vptr_read(void **a) { (void)a; }
/* atomics: executed under the baton in controlled mode; plain in free mode only
 * when libtsan is absent (then there is no detector to mislead) */
long __tsan_atomic64_load(const volatile long *a, int mo) { (void)mo; return __atomic_load_n(a, __ATOMIC_SEQ_CST); }
void __tsan_atomic64_store(volatile long *a, long v, int mo) { (void)mo; __atomic_store_n(a, v, __ATOMIC_SEQ_CST); }
int __tsan_atomic64_compare_exchange_strong(volatile long *a, long *c, long v, int mo, int fmo) {
    (void)mo; (void)fmo;
    return __atomic_compare_exchange_n(a, c, v, 0, __ATOMIC_SEQ_CST, __ATOMIC_SEQ_CST);
}
int __tsan_atomic64_compare_exchange_weak(volatile long *a, long *c, long v, int mo, int fmo) {
    (void)mo; (void)fmo;
    return __atomic_compare_exchange_n(a, c, v, 0, __ATOMIC_SEQ_CST, __ATOMIC_SEQ_CST);
}
long __tsan_atomic64_fetch_add(volatile long *a, long v, int mo) { (void)mo; return __atomic_fetch_add(a, v, __ATOMIC_SEQ_CST); }
int __tsan_atomic32_load(const volatile int *a, int mo) { (void)mo; return __atomic_load_n(a, __ATOMIC_SEQ_CST); }
void __tsan_atomic32_store(volatile int *a, int v, int mo) { (void)mo; __atomic_store_n(a, v, __ATOMIC_SEQ_CST); }
int __tsan_atomic32_fetch_add(volatile int *a, int v, int mo) { (void)mo; return __atomic_fetch_add(a, v, __ATOMIC_SEQ_CST); }
int __tsan_atomic32_compare_exchange_strong(volatile int *a, int *c, int v, int mo, int fmo) {
    (void)mo; (void)fmo;
    return __atomic_compare_exchange_n(a, c, v, 0, __ATOMIC_SEQ_CST, __ATOMIC_SEQ_CST);
}
