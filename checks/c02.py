"""C02 - fast nonlocal feature evaluation reproduces the documented feature definitions.
Engine E1, DESIGN.md section 5/C02.

States  = (molecule x semilocal level x rho_mult x NLDF version/spec set x plan type x exponent
          ladder x interpolator back end x nspin) and the SDMX settings classes.
Oracles = (i) DEFINITION: brute-force quadrature of the documented integrals (mc/nldf_defs.py,
          transcribed from docs/features/*.rst) on a Becke grid that has an extra centre AT the
          evaluation point, for ~40 grid points spanning the density range above 1e-3.  The fast
          path is run at three numerical levels (aux ladder 2.0/1.8/1.6, lmax 4/6/8) and must obey
          |fast3 - ref| <= min(max(2 |fast3 - fast2|, 4e-3), 2e-2) scale  and  |fast3 - ref| <= max(|fast1 - ref|,
          |fast2 - ref|) + 1e-3 scale  (the truncation is controllable and the limit is the documented integral);
          (ii) PATH RELATIONS: onsite_direct / onsite_spline / train_gen interpolators, Gaussian /
          spline plans and etb / zexp ladders agree with each other within the same tolerance;
          the fast SDMX module agrees with the reference-grade ('slow') module to 1e-8 and with the
          documented H_j integrals of the density matrix.
"""
import itertools

import numpy as np

ID = "C02"
VARIANT = "plain"
LEVEL_RULE = (
    "states = configuration points of (molecule, level, rho_mult, spec family, plan, ladder, interpolator, nspin) + SDMX classes; "
    "every state compares all features of the family at ~40 evaluation points with an independent quadrature of the documented "
    "integral at three refinement levels; outcome = rounded feature checksum"
)
ASSUMPTIONS = [
    "evaluation points with density > 1e-3 (where the property makes a claim), ~28 per molecule, spanning the density range",
    "reference = Becke quadrature (level 3, no pruning) with an additional centre at the evaluation point; its own error is far below the fast path's truncation error (converged to 1e-5 between levels 2 and 3)",
    "the conversion (a0, grad_mul, tau_mul) -> (A, B, C) of the documented exponent is part of the trusted transcription (cross-examined by C03, C07, C13)",
    "molecules HF and H2O in def2-svp with a converged PBE density",
]
TH = [1.0, 0.03125, 0.02]
P1 = [2.0, 0.0625, 0.04]
P2 = [0.5, 0.016, 0.01]
LEVELS = [(2.0, 4), (1.8, 6), (1.6, 8)]


def _settings(fam, level, rho_mult):
    from ciderpress.dft import settings as S

    g = (lambda p: list(p)) if level == "MGGA" else (lambda p: list(p[:2]))
    if fam == "VIJ-all":
        return S.NLDFSettingsVIJ(level, g(TH), rho_mult, ["se", "se_r2", "se_apr2", "se_ap", "se_ap2r2", "se_lapl"], ["se_grad", "se_rvec"],
                                 [(0, 0), (-1, 0), (0, 1), (1, 1), (-1, 1)], ["se", "se_ar2", "se_a2r4", "se_erf_rinv"],
                                 [g(P1), g(P2), g(P1), g(P2) + [0.7]])
    if fam == "VJ-rev":
        return S.NLDFSettingsVJ(level, g(TH), rho_mult, ["se_erf_rinv", "se_a2r4", "se_ar2", "se"], [g(P1) + [0.4], g(P2), g(P1), g(P2)])
    if fam == "VI-rev":
        return S.NLDFSettingsVI(level, g(TH), rho_mult, ["se_lapl", "se_ap", "se_r2"], ["se_rvec", "se_grad"], [(1, 1), (-1, 1), (0, 1), (-1, 0)])
    if fam == "VK":
        return S.NLDFSettingsVK(level, g(TH), rho_mult, [g(P1), g(P2)], "exponential")
    raise ValueError(fam)


def initial_cases(tier, seed):
    cases = []
    quick = tier == "quick"
    base = dict(mol="HF", level="MGGA", rho_mult="one", fam="VIJ-all", plan="gaussian", formula="default", interp="onsite_direct", nspin=1)
    dims = {"mol": ["HF", "H2O"], "level": ["MGGA", "GGA"], "rho_mult": ["one", "expnt"], "fam": ["VIJ-all", "VJ-rev", "VI-rev", "VK"],
            "plan": ["gaussian", "spline"], "formula": ["default", "etb", "zexp"], "interp": ["onsite_direct", "onsite_spline", "train_gen"], "nspin": [1, 2]}
    pts = [dict(base)]
    for k, vals in dims.items():
        for v in vals[1:]:
            p = dict(base)
            p[k] = v
            pts.append(p)
    for fam, plan, interp in itertools.product(dims["fam"], dims["plan"], dims["interp"]):
        pts.append(dict(base, fam=fam, plan=plan, interp=interp))
    for fam, level, rm in itertools.product(dims["fam"], dims["level"], dims["rho_mult"]):
        pts.append(dict(base, fam=fam, level=level, rho_mult=rm))
    # plan type x exponent ladder x prefactor: with rho_mult = 'expnt' the convolved function contains the exponent, which the
    # spline plans also turn into a table index (two uses of one quantity that coincide for the Gaussian plan)
    for fam, plan, formula, rm in itertools.product(dims["fam"], dims["plan"], dims["formula"], dims["rho_mult"]):
        if quick and formula == "default" and plan == "gaussian":
            continue
        pts.append(dict(base, fam=fam, plan=plan, formula=formula, rho_mult=rm))
    # the spin-polarised path at every level / prefactor (the exponent functions have separate nspin branches per level)
    for fam, level, rm in itertools.product(["VIJ-all", "VK"], dims["level"], dims["rho_mult"]):
        pts.append(dict(base, fam=fam, level=level, rho_mult=rm, nspin=2))
    if not quick:
        for p in itertools.product(*dims.values()):
            pts.append(dict(zip(dims.keys(), p)))
    seen = set()
    for p in pts:
        if p["rho_mult"] == "expnt" and p["level"] == "GGA":
            pass
        k = tuple(sorted(p.items()))
        if k in seen:
            continue
        seen.add(k)
        cases.append(dict(p, kind="nldf", seed=seed))
    for mol, cls in itertools.product(["HF", "H2O", "LiHgc", "LiHgcp"], ["SDMX", "SDMXG", "SDMX1", "SDMXG1", "SDMXFull"]):
        for nspin in (1, 2):
            cases.append({"kind": "sdmx", "mol": mol, "cls": cls, "nspin": nspin, "seed": seed})
    # fractional-Laplacian orbital features at the exponents where (-Lapl)^s is a differential operator (s = 0, 1): every
    # feature group against PySCF's own orbital derivatives (s, p and d shells; generally contracted shells)
    for mol in ("HF", "H2O", "LiHgc", "Hed"):
        for order in ([0.0, 1.0], [1.0, 0.0]):
            cases.append({"kind": "nlof", "mol": mol, "slist": order, "seed": seed})
    return cases


def case_label(c):
    return ";".join("%s=%s" % (k, c[k]) for k in c if k != "seed")


_MOL = {}


def _mol_dm(name):
    if name not in _MOL:
        from pyscf import dft, gto

        from mc import fixtures as F

        mol = gto.M(atom=F.MOLS[name]["atom"], basis=F.MOLS[name]["basis"] if ("gc" in name) else "def2-svp", verbose=0)
        ks = dft.RKS(mol)
        ks.xc = "PBE"
        ks.grids.level = 1
        ks.kernel()
        _MOL[name] = (mol, ks.make_rdm1())
    return _MOL[name]


def _eval_points(mol, dm, lmax):
    from pyscf.dft import numint

    from ciderpress.pyscf.gen_cider_grid import CiderGrids

    g = CiderGrids(mol, lmax=lmax)
    g.level = 1
    g.build(with_non0tab=True, full_lmax=lmax)
    ao = numint.eval_ao(mol, g.coords, deriv=1)
    rho = np.ascontiguousarray(numint.eval_rho(mol, ao, dm, xctype="MGGA", with_lapl=False))
    sel = np.where((rho[0] > 1e-3) & (g.weights > 0))[0]
    sel = sel[np.argsort(rho[0, sel])]
    sel = sel[:: max(1, len(sel) // 28)]
    return g, rho, sel


_REF = {}


def _reference(molname, fam, level, rho_mult):
    """Brute-force quadrature of the documented integrals at the evaluation points."""
    key = (molname, fam, level, rho_mult)
    if key in _REF:
        return _REF[key]
    from pyscf import dft, gto
    from pyscf.dft import numint

    from mc import nldf_defs as D

    mol, dm = _mol_dm(molname)
    st = _settings(fam, level, rho_mult)
    g, rho, sel = _eval_points(mol, dm, 4)
    nfeat = st.nfeat
    ref = np.zeros((nfeat, len(sel)))
    ver = st.version
    for k, ig in enumerate(sel):
        r = g.coords[ig]
        atoms = [(mol.atom_symbol(i), mol.atom_coord(i).tolist()) for i in range(mol.natm)] + [("He", r.tolist())]
        m2 = gto.M(atom=atoms, basis="sto-3g", unit="Bohr", verbose=0, spin=None)
        gg = dft.gen_grid.Grids(m2)
        gg.level = 3
        gg.prune = None
        gg.build()
        rc, w = gg.coords, gg.weights
        ao = numint.eval_ao(mol, rc, deriv=1)
        rr = numint.eval_rho(mol, ao, dm, xctype="MGGA", with_lapl=False)
        n, sig, tau = rr[0], (rr[1:4] ** 2).sum(0), rr[4]
        mask = n > 1e-14
        a0p = np.zeros_like(n)
        a0p[mask] = D.exponent(n[mask], sig[mask], tau[mask], st.theta_params, level)
        b = a0p if rho_mult == "expnt" else 1.0
        d = rc - r
        rad = np.sqrt((d ** 2).sum(1))
        nn, ss, tt = rho[0, ig], (rho[1:4, ig] ** 2).sum(), rho[4, ig]
        row = []
        if ver in ("j", "ij"):
            for spec, p in zip(st.feat_specs, st.feat_params):
                ai = D.exponent(nn, ss, tt, p, level)
                row.append((w * n * b * D.k_j(spec, ai, a0p, rad, p[-1] if spec == "se_erf_rinv" else None))[mask].sum())
        if ver == "k":
            for spec, p in zip(st.feat_specs, st.feat_params):
                ai = D.exponent(nn, ss, tt, p, level)
                row.append((w * n * b * D.k_k(ai, a0p, rad))[mask].sum())
        if ver in ("i", "ij"):
            for spec in st.l0_feat_specs:
                row.append((w * n * b * D.k_i(spec, a0p, rad))[mask].sum())
            vecs = [((w * n * b * D.k_i_l1(spec, a0p, rad))[mask, None] * d[mask]).sum(0) for spec in st.l1_feat_specs]
            vecs.append(rho[1:4, ig])
            for (i, j) in st.l1_feat_dots:
                row.append(vecs[i].dot(vecs[j]))
        ref[:, k] = row
    _REF[key] = (st, sel, ref)
    return _REF[key]


def _fast(molname, st, case, lambd, lmax, sel_coords):
    from pyscf.dft import numint

    from ciderpress.pyscf.gen_cider_grid import CiderGrids
    from ciderpress.pyscf.nldf_convolutions import PySCFNLDFInitializer

    mol, dm = _mol_dm(molname)
    g, rho, sel = _eval_points(mol, dm, lmax)
    kw = dict(aux_lambd=lambd, lmax=lmax, plan_type=case["plan"], interpolator_type=case["interp"])
    if case["formula"] != "default":
        kw["alpha_formula"] = case["formula"]
    nspin = case["nspin"]
    gen = PySCFNLDFInitializer(st, **kw).initialize_nldf_generator(mol, g.grids_indexer, nspin)
    gen.interpolator.set_coords(g.coords)
    out = []
    for s in range(nspin):
        f = gen.get_features(np.ascontiguousarray(rho / nspin), spin=s)
        out.append(np.array(f[:, sel]))
    if np.abs(g.coords[sel] - sel_coords).max() > 1e-12:
        raise RuntimeError("evaluation points moved between refinement levels")
    return out


def run_nldf(case):
    fails = []
    ck = ";".join("%s=%s" % (k, case[k]) for k in ("mol", "level", "rho_mult", "fam", "plan", "formula", "interp", "nspin"))
    try:
        st, sel, ref = _reference(case["mol"], case["fam"], case["level"], case["rho_mult"])
    except Exception as e:
        return {"fail": [{"key": "harness-reference-failed;" + ck, "msg": "%s: %s" % (type(e).__name__, str(e)[:200])}], "evals": 0, "outcome": "ref-failed"}
    mol, dm = _mol_dm(case["mol"])
    g0, rho0, sel0 = _eval_points(mol, dm, 4)
    coords = g0.coords[sel0]
    fast = []
    try:
        for lambd, lmax in LEVELS:
            fast.append(_fast(case["mol"], st, case, lambd, lmax, coords))
    except RuntimeError as e:
        if "exponent is too large" in str(e):
            return {"fail": [], "evals": 1, "outcome": [ck, "rejected"]}
        raise
    names = []
    if st.version in ("j", "ij", "k"):
        names += ["%s:%s" % (st.version[0] if st.version != "ij" else "j", s) for s in st.feat_specs]
    if st.version in ("i", "ij"):
        names += ["i:%s" % s for s in st.l0_feat_specs] + ["dot%s" % (tuple(d),) for d in st.l1_feat_dots]
    info = {}
    for s in range(case["nspin"]):
        for j, nm in enumerate(names):
            b = ref[j]
            sc = np.abs(b).max() + 1e-300
            e1 = np.abs(fast[0][s][j] - b).max() / sc
            e2 = np.abs(fast[1][s][j] - b).max() / sc
            e3 = np.abs(fast[2][s][j] - b).max() / sc
            d32 = np.abs(fast[2][s][j] - fast[1][s][j]).max() / sc
            info[nm] = [float("%.2e" % e1), float("%.2e" % e2), float("%.2e" % e3)]
            if not (e3 <= max(2 * d32, 4e-3) and e3 <= 2e-2):
                fails.append({"key": "definition;%s;feat=%s" % (ck, nm),
                              "msg": "feature %s (spin %d) differs from the quadrature of the documented integral by %.3e of its scale at the finest level (levels: %.2e, %.2e, %.2e; last refinement step %.2e)" % (
                                  nm, s, e3, e1, e2, e3, d32)})
            elif not e3 <= max(e1, e2) + 1e-3:  # the finest level is never the worst (the vector specs are noisy, not monotone)
                fails.append({"key": "not-converging;%s;feat=%s" % (ck, nm), "msg": "discrepancy of %s grows under refinement: %.2e -> %.2e -> %.2e" % (nm, e1, e2, e3)})
    chk = float(np.abs(fast[2][0]).sum())
    return {"fail": fails, "evals": 3 * case["nspin"], "edges": 3, "outcome": [ck, float("%.6e" % chk)], "info": info, "fine": [a.tolist() for a in fast[2]]}


# ----------------------------------------------------------------------------- SDMX
def _sdmx_reference(molname, pows, nd, n1, coords):
    """-1/4 * 4 pi int dR R^(2-j) |rho0(R; r)|^2 etc. from the density matrix (nspin = 1)."""
    from pyscf import dft, gto
    from pyscf.dft import numint

    from mc import nldf_defs as D

    mol, dm = _mol_dm(molname)
    out = []
    # R quadrature: log composite Gauss-Legendre
    ts, ws = [], []
    edges = np.linspace(np.log(2e-3), np.log(60.0), 41)
    for a, b in zip(edges[:-1], edges[1:]):
        t, w = D._gl(a, b, 6)
        ts.append(t)
        ws.append(w)
    R = np.exp(np.concatenate(ts))
    WR = np.concatenate(ws) * R
    for r in coords:
        atoms = [(mol.atom_symbol(i), mol.atom_coord(i).tolist()) for i in range(mol.natm)] + [("He", r.tolist())]
        m2 = gto.M(atom=atoms, basis="sto-3g", unit="Bohr", verbose=0, spin=None)
        gg = dft.gen_grid.Grids(m2)
        gg.level = 2
        gg.prune = None
        gg.build()
        rc, w = gg.coords, gg.weights
        ao = numint.eval_ao(mol, rc, deriv=0)
        ao_r = numint.eval_ao(mol, r[None, :], deriv=0)[0]
        c = ao.dot(dm.dot(ao_r))  # n1(r', r)
        dvec = rc - r
        u = np.sqrt((dvec ** 2).sum(1))
        x = np.exp(-2 * u[None, :] ** 2 / R[:, None] ** 2)
        pref = (2 / np.pi) ** 1.5 * 4 / (4 - np.sqrt(2)) / R[:, None] ** 3
        h = pref * x * (1 - x)
        rho0 = (h * (w * c)[None, :]).sum(1)
        # dh/dR analytically: h = pref x (1 - x), x = exp(-2u^2/R^2), dx/dR = x * 4u^2/R^3
        dx = x * 4 * u[None, :] ** 2 / R[:, None] ** 3
        dh = -3 / R[:, None] * h + pref * (dx * (1 - x) - x * dx)
        drho0 = (dh * (w * c)[None, :]).sum(1)
        # grad_r h = dh/du * (r - r')/u ; dh/du = pref * (dx_u (1-x) - x dx_u), dx_u = -4u/R^2 x
        dxu = -4 * u[None, :] / R[:, None] ** 2 * x
        dhu = pref * (dxu * (1 - x) - x * dxu)
        with np.errstate(divide="ignore", invalid="ignore"):
            unit = np.where(u[:, None] > 1e-12, -dvec / np.maximum(u, 1e-300)[:, None], 0.0)  # (r - r')/u
        rho1 = np.einsum("Rg,gx->Rx", dhu * (w * c)[None, :], unit)
        row = []
        n_rr = float(ao_r.dot(dm.dot(ao_r)))  # rho0(R -> 0) = n1(r, r): analytic head of the R integral below the grid
        for j in pows:
            head = 4 * np.pi * n_rr ** 2 * R.min() ** (3 - j) / (3 - j)
            row.append(-0.25 * (4 * np.pi * (WR * R ** (2 - j) * rho0 ** 2).sum() + head))
        for j in pows[:nd]:
            row.append(-0.25 * 4 * np.pi * (WR * R ** (4 - j) * drho0 ** 2).sum())
        for j in pows[:n1]:
            row.append(-0.25 * 4 * np.pi * (WR * R ** (4 - j) * (rho1 ** 2).sum(1)).sum())
        out.append(row)
    return np.array(out).T


def run_sdmx(case):
    from ciderpress.pyscf import sdmx as fastmod
    from ciderpress.pyscf import sdmx_slow as slowmod

    from mc import fixtures as F

    fails = []
    mol, dm = _mol_dm(case["mol"])
    st = F.sdmx_settings(case["cls"])
    nspin = case["nspin"]
    ck = "mol=%s;cls=%s;nspin=%d" % (case["mol"], case["cls"], nspin)
    g, rho, sel = _eval_points(mol, dm, 4)
    sel = sel[::3]
    coords = np.ascontiguousarray(g.coords[sel])
    gf = fastmod.PySCFSDMXInitializer(st, lowmem=False).initialize_sdmx_generator(mol, nspin)
    gs = slowmod.PySCFSDMXInitializer(st, lowmem=False).initialize_sdmx_generator(mol, nspin)
    ff = gf.get_features(dm / nspin, mol, coords)
    fs = gs.get_features(dm / nspin, mol, coords)
    sc = np.abs(fs).max(1, keepdims=True) + 1e-300
    d = np.abs(ff - fs) / sc
    if d.max() > 1e-8:
        j = int(np.argmax(d.max(1)))
        fails.append({"key": "sdmx-fast-vs-slow;%s;feat=%d" % (ck, j), "msg": "fast SDMX feature %d differs from the reference-grade module by %.3e of its scale" % (j, d.max())})
    info = {}
    # the generally contracted molecule carries a very diffuse shell (exponent 0.06) for which the package's default
    # SDMX exponent ladder is not converged (measured 5e-2 for j = 2): it is used for the fast-vs-reference relation,
    # which is where the contraction bookkeeping matters; the definition clause is decided on HF and H2O
    if case["cls"] != "SDMXFull" and "gc" not in case["mol"]:
        pows = list(st.pows)
        nd = getattr(st, "ndterms", 0)
        n1 = getattr(st, "n1terms", 0)
        ref = _sdmx_reference(case["mol"], pows, nd, n1, coords)
        if ref.shape != ff.shape:
            fails.append({"key": "sdmx-count;" + ck, "msg": "generator returns %s features, the settings define %s" % (ff.shape, ref.shape)})
        else:
            for j in range(ref.shape[0]):
                e = np.abs(ff[j] - ref[j]).max() / (np.abs(ref[j]).max() + 1e-300)
                info["feat%d" % j] = float("%.2e" % e)
                # measured on the unchanged tree: <= 2e-3 for H^0/H^0d, <= 6e-3 for H^1 at the default ladder (lambda 1.8)
                if not e <= 2e-2:
                    fails.append({"key": "sdmx-definition;%s;feat=%d" % (ck, j), "msg": "SDMX feature %d differs from the documented integral of the density matrix by %.3e of its scale" % (j, e)})
    return {"fail": fails, "evals": 3, "edges": 2, "outcome": [ck, float("%.6e" % np.abs(ff).sum())], "info": info}


class _PointGrid:
    def __init__(self, mol, coords):
        self.mol, self.coords, self.weights = mol, np.ascontiguousarray(coords), np.ones(len(coords))
        self.non0tab, self.cutoff = None, 0


def run_nlof(case):
    """Documented definitions (FracLaplSettings docstring) evaluated with PySCF's orbital derivatives for s in {0, 1}:
      F_s        = sum_ij D_ij phi_i [(-Lapl)^s phi_j]                      (scalar)
      F_s^1      = sum_ij D_ij grad phi_i [(-Lapl)^s phi_j]                 (l=1 vector; -1 = grad rho)
      F_s^d      = sum_ij D_ij phi_i grad [(-Lapl)^s phi_j]                 (F^d vector)
      F_s^dd     = sum_ij D_ij grad phi_i . grad [(-Lapl)^s phi_j]
    and the features are the listed contractions.  The package evaluates (-Lapl)^s of a Gaussian through a 1F1 spline for
    every s, so the integer exponents exercise the same code as the fractional ones."""
    from pyscf import gto
    from pyscf.dft import numint

    from ciderpress.dft.settings import FracLaplSettings
    from ciderpress.pyscf.descriptors import _fl_desc_getter

    from mc import fixtures as F

    name = case["mol"]
    mol = F.make_mol(name)
    dm = F.make_dm(mol, "D1", case["seed"])
    slist = list(case["slist"])
    l1 = [(-1, 0), (0, 0), (0, 1), (-1, 1), (1, 1)]
    st = FracLaplSettings(slist, 2, 2, l1, nd1=2, ld_dots=list(l1), ndd=2)
    rng = np.random.RandomState(11)
    coords = np.ascontiguousarray(mol.atom_coords()[rng.randint(0, mol.natm, 18)] + rng.randn(18, 3) * 0.8)
    got = np.asarray(_fl_desc_getter(mol, _PointGrid(mol, coords), dm, st))
    ao = numint.eval_ao(mol, coords, deriv=3)  # 20 components: value, 3 first, 6 second, 10 third derivatives
    phi, g = ao[0], ao[1:4]
    lap = ao[4] + ao[7] + ao[9]
    # third derivatives order: xxx xxy xxz xyy xyz xzz yyy yyz yzz zzz
    glap = np.array([ao[10] + ao[13] + ao[15], ao[11] + ao[16] + ao[18], ao[12] + ao[17] + ao[19]])
    op = {0.0: (phi, g), 1.0: (-lap, -glap)}
    D = 0.5 * (dm + dm.T)
    c0 = phi @ D
    cg = np.array([g[x] @ D for x in range(3)])
    scal, v1, vd, dd = [], [], [], []
    for s_ in slist:
        k, gk = op[s_]
        scal.append(np.einsum("gi,gi->g", c0, k))
        v1.append(np.array([np.einsum("gi,gi->g", cg[x], k) for x in range(3)]))
        vd.append(np.array([np.einsum("gi,gi->g", c0, gk[x]) for x in range(3)]))
        dd.append(sum(np.einsum("gi,gi->g", cg[x], gk[x]) for x in range(3)))
    drho = 2 * np.array([np.einsum("gi,gi->g", c0, g[x]) for x in range(3)])
    ref = list(scal)
    for vecs in (v1, vd):
        vv = vecs + [drho]
        for j, k in l1:
            ref.append((vv[j] * vv[k]).sum(0))
    ref += dd
    ref = np.array(ref)
    ck = "mol=%s;slist=%s" % (name, ",".join("%g" % x for x in slist))
    fails = []
    if got.shape != ref.shape:
        return {"fail": [{"key": "nlof-definition-shape;" + ck, "msg": "%s features returned, %s defined" % (got.shape, ref.shape)}], "evals": 1, "outcome": "shape"}
    names = ["F_s[%d]" % i for i in range(2)] + ["l1dot%s" % (d,) for d in l1] + ["lddot%s" % (d,) for d in l1] + ["F_dd[%d]" % i for i in range(2)]
    worst = 0.0
    for j in range(ref.shape[0]):
        e = np.abs(got[j] - ref[j]).max() / (np.abs(ref[j]).max() + 1e-300)
        worst = max(worst, e)
        # measured: <= 3e-8 (accuracy of the 1F1 spline)
        if not e <= 2e-6:
            fails.append({"key": "nlof-definition;%s;feat=%s" % (ck, names[j]),
                          "msg": "fractional-Laplacian feature %s differs from the documented definition (PySCF orbital derivatives) by %.3e of its scale" % (names[j], e)})
    return {"fail": fails, "evals": 2, "edges": 1, "outcome": [ck, float("%.6e" % np.abs(got).sum())], "info": {"worst": worst}}


def run_case(case):
    if case["kind"] == "nlof":
        return run_nlof(case)
    if case["kind"] == "nldf":
        return run_nldf(case)
    return run_sdmx(case)


def finish(tier, seed, cases, results):
    """Path relations: states that differ only in plan / ladder / interpolator must agree at the finest level."""
    fails = []
    groups = {}
    for c, r in zip(cases, results):
        if c["kind"] != "nldf" or "fine" not in r:
            continue
        key = (c["mol"], c["level"], c["rho_mult"], c["fam"], c["nspin"])
        groups.setdefault(key, []).append((c, np.array(r["fine"][0])))
    nedges = 0
    worst = {"same-discretisation": 0.0, "different-discretisation": 0.0}
    for key, lst in groups.items():
        # states with the same (plan, ladder) evaluate the SAME expansion through different interpolation back ends:
        # 1e-3 (measured 1.4e-5); a different plan type or ladder is a different discretisation of the same integral: both are within the
        # definition clause's cap of the reference, so they agree to 2e-2 (measured <= 1.3e-2 over the thorough lattice)
        pairs = []
        firsts = {}
        for c, f in lst:
            sub = (c["plan"], c["formula"])
            if sub in firsts:
                pairs.append((firsts[sub], (c, f), 1e-3, "same-discretisation"))
            else:
                if firsts:
                    pairs.append((next(iter(firsts.values())), (c, f), 2e-2, "different-discretisation"))
                firsts[sub] = (c, f)
        for (c0, f0), (c, f), tol, kind in pairs:
            nedges += 1
            sc = np.abs(f0).max(1, keepdims=True) + 1e-300
            d = (np.abs(f - f0) / sc).max(1)
            worst[kind] = max(worst[kind], float(d.max()))
            if d.max() > tol:
                j = int(np.argmax(d))
                fails.append({"key": "path-relation;mol=%s;level=%s;rho_mult=%s;fam=%s;nspin=%s;%s/%s/%s-vs-%s/%s/%s" % (key + (c["plan"], c["formula"], c["interp"], c0["plan"], c0["formula"], c0["interp"])),
                              "msg": "feature %d computed through plan=%s ladder=%s interpolator=%s differs from plan=%s ladder=%s interpolator=%s by %.3e of its scale" % (
                                  j, c["plan"], c["formula"], c["interp"], c0["plan"], c0["formula"], c0["interp"], d.max()), "case": {"finish": True}})
    for r in results:
        r.pop("fine", None)
    return {"fail": fails, "coverage": {"path_relation_edges": nedges, "path_relation_worst": worst, "transitions": max(nedges + sum(int(r.get("edges", 0)) for r in results), 1)}}
