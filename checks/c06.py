"""C06 - energies and features are invariant under rigid motions and atom relabelling.
Engine E2 on the group orbit, DESIGN.md section 5/C06.

States      = elements of the octahedral group reached from the identity by the generators
              {C4(z), C4(x), inversion} (breadth-first closure: 48 signed permutation matrices),
              composed with every atom permutation and a translation alphabet.
Transitions = application of one generator / permutation / translation to the molecule (fresh
              real objects for every state).
Invariant   = XC energy and nelec equal to the identity state (only summation order changes, the
              atom-centred Lebedev grids are mapped onto themselves); vmat' = U vmat U^T with U the
              signed-permutation AO representation combined with the atom permutation; per-point
              NLDF / SDMX features equal at co-moved grid points.
Arbitrary rotations (three fixed non-symmetric Euler triples): the integrated energy agrees to
quadrature accuracy, with the discrepancy shrinking under grid refinement.
"""
import itertools

import numpy as np

ID = "C06"
VARIANT = "plain"
LEVEL_RULE = (
    "states = (group element x atom permutation x translation) reached by BFS over the generators, for each (molecule, feature "
    "family, spin); every state builds fresh real objects for the transformed molecule and is compared with the identity "
    "state; outcome = rounded energy; distinct = distinct (configuration, transformation) pairs"
)
ASSUMPTIONS = [
    "s/p-only basis sets, so that the AO representation of an octahedral operation is a signed permutation",
    "exactness (1e-11 relative) is claimed only for operations that map the atom-centred Lebedev grids onto themselves (the 48 octahedral operations, translations, relabellings); arbitrary rotations are decided to quadrature accuracy",
]
TOL = 2e-11
TOL_V = 2e-10
GENS = {"C4z": np.array([[0, -1, 0], [1, 0, 0], [0, 0, 1]]), "C4x": np.array([[1, 0, 0], [0, 0, -1], [0, 1, 0]]), "inv": -np.eye(3, dtype=int)}
TRANS = {"t0": [0.0, 0.0, 0.0], "t1": [0.3, -1.1, 2.7], "t2": [50.0, 0.0, 0.0]}
FAMS = ["SL", "VJ", "VIJ", "VK", "VIJ2", "SDMX1", "SDMXG1", "VIJ+SDMX1"]


def _word_matrix(word):
    R = np.eye(3, dtype=int)
    for g in word:
        R = GENS[g] @ R
    return R


def initial_cases(tier, seed):
    cases = []
    quick = tier == "quick"
    for mol, fam, nspin in itertools.product(["H2O", "HF", "OH"], FAMS, [1, 2]):
        if quick and not ((mol == "H2O" and fam in ("SL", "VIJ", "VK", "SDMX1")) or (mol == "OH" and fam == "VIJ2" and nspin == 2)
                          or (mol == "HF" and fam == "SDMXG1" and nspin == 1)):
            continue
        if quick and mol == "H2O" and nspin == 2 and fam != "VIJ":
            continue
        cases.append({"kind": "orbit", "mol": mol, "fam": fam, "nspin": nspin, "word": [], "perm": None, "trans": "t0", "seed": seed})
    for mol, fam in itertools.product(["H2O", "HF"], ["VIJ", "SDMX1", "SL"]):
        for k in range(3):
            cases.append({"kind": "rotation", "mol": mol, "fam": fam, "euler": k, "seed": seed})
    # fractional-Laplacian (orbital) features are analytic in the Gaussian basis: exact invariance at co-moved points under
    # ARBITRARY rotations, improper rotations, translations and atom relabelling
    for mol, cls in itertools.product(["H2O", "HF"], ["FL", "FLd", "FLd2", "FL0"]):
        for k, refl, perm, trans in itertools.product(range(3), (False, True), (False, True), ("t0", "t1")):
            if quick and (k + refl + perm + (trans == "t1")) % 2 and mol == "HF":
                continue
            cases.append({"kind": "nlof", "mol": mol, "cls": cls, "euler": k, "refl": refl, "perm": perm, "trans": trans, "seed": seed})
    # SDMX features involve no grid quadrature either (auxiliary-exponent fit of the density matrix around each point)
    for mol, cls in itertools.product(["H2O", "HOH", "HF"], ["SDMX", "SDMX1", "SDMXG", "SDMXG1", "SDMXFull", "SADM", "SDMXG1-all"]):
        for k, refl, perm, trans in itertools.product(range(3), (False, True), (False, True), ("t0", "t1")):
            if quick and ((k + refl + perm + (trans == "t1")) % 2 or mol == "HOH" or (mol == "HF" and cls not in ("SDMX1", "SDMXFull"))):
                continue
            cases.append({"kind": "sdmxpt", "mol": mol, "cls": cls, "euler": k, "refl": refl, "perm": perm, "trans": trans, "seed": seed})
    return cases


def case_label(c):
    return ";".join("%s=%s" % (k, c[k]) for k in c if k != "seed")


def _atoms(mol):
    return [(mol.atom_symbol(i), mol.atom_coord(i)) for i in range(mol.natm)]


def _transformed(molname, R, perm, t):
    """Returns (new mol, U) with U the AO transformation (new AO index <- old AO)."""
    from pyscf import gto

    from mc import fixtures as F

    mol0 = F.make_mol(molname)
    atoms = _atoms(mol0)
    natm = len(atoms)
    perm = list(range(natm)) if perm is None else list(perm)
    new_atoms = []
    for new_i in range(natm):
        sym, x = atoms[perm[new_i]]
        new_atoms.append((sym, (R @ x + t).tolist()))
    mol = gto.M(atom=new_atoms, basis=F.MOLS[molname]["basis"], spin=F.MOLS[molname]["spin"], unit="Bohr", verbose=0)
    # AO representation
    lab0 = mol0.ao_labels(fmt=False)
    lab1 = mol.ao_labels(fmt=False)
    nao = mol0.nao
    U = np.zeros((nao, nao))
    idx0 = {}
    for k, (ia, sym, nl, m) in enumerate(lab0):
        idx0.setdefault((ia, nl), []).append(k)
    idx1 = {}
    for k, (ia, sym, nl, m) in enumerate(lab1):
        idx1.setdefault((ia, nl), []).append(k)
    for (ia_new, nl), new_idx in idx1.items():
        old_idx = idx0[(perm[ia_new], nl)]
        if len(new_idx) == 1:
            U[new_idx[0], old_idx[0]] = 1.0
        elif len(new_idx) == 3:  # p shell, PySCF order (x, y, z)
            U[np.ix_(new_idx, old_idx)] = R
        else:
            raise ValueError("only s/p shells are supported by this check")
    return mol0, mol, U


def _run(mol, fam, nspin, seed, dm):
    from mc import fixtures as F

    st = F.feature_settings(fam)
    ml = F.make_mlxc(st, evals=("RBF",), mode="SEP", seed=seed)
    # hydrogen gets smaller radial / angular tables than the other elements (both Lebedev sets are octahedral): per-atom
    # tables that are looked up by element or by position in the atom list then differ between the atoms that a
    # permutation exchanges
    ag = {mol.atom_symbol(i): ((15, 26) if mol.atom_symbol(i) == "H" else (20, 50)) for i in range(mol.natm)}
    ks = F.make_ks(mol, ml, nspin=nspin, atom_grid=ag, lmax=4, xmix=0.5, xkernel="GGA_X_PBE", ckernel="GGA_C_PBE")
    n, e, v = F.nr(ks, dm)
    feats = None
    ni = ks._numint
    if st.has_nldf:
        g = ni.nldfgen
        # features of the last feature pass are cached per spin: recompute them on the grid
        from checks import c07

        rho = c07._rho_on_grid(mol, ks.grids, dm if nspin == 1 else dm[0], st.sl_settings.level)
        feats = np.array(g.get_features(rho, spin=0))
    return ks, np.asarray(n, float), float(e), np.asarray(v), feats


def _dm(mol, nspin, seed):
    from mc import fixtures as F

    d1 = F.make_dm(mol, "D1", seed)
    if nspin == 1:
        return d1
    return np.array([0.55 * d1, 0.45 * F.make_dm(mol, "D2", seed)])


_REF = {}


def _reference(molname, fam, nspin, seed):
    from mc import fixtures as F

    key = (molname, fam, nspin, seed)
    if key not in _REF:
        mol0 = F.make_mol(molname)
        mol0 = _transformed(molname, np.eye(3), None, np.zeros(3))[1]
        dm = _dm(mol0, nspin, seed)
        ks, n, e, v, f = _run(mol0, fam, nspin, seed, dm)
        _REF[key] = (mol0, dm, ks.grids.coords.copy(), n, e, v, f)
    return _REF[key]


def run_orbit(case):
    molname, fam, nspin, seed = case["mol"], case["fam"], case["nspin"], case["seed"]
    word = case["word"]
    R = _word_matrix(word)
    t = np.array(TRANS[case["trans"]])
    fails = []
    mol0, dm0, coords0, n0, e0, v0, f0 = _reference(molname, fam, nspin, seed)
    _, mol, U = _transformed(molname, R, case["perm"], t)
    dm = U @ dm0 @ U.T if nspin == 1 else np.array([U @ d @ U.T for d in dm0])
    ks, n, e, v, f = _run(mol, fam, nspin, seed, dm)
    ck = "mol=%s;fam=%s;nspin=%d" % (molname, fam, nspin)
    kind = "op=%s;perm=%s;trans=%s" % ("".join(w[0] + w[-1] for w in word[-1:]) or "id", "id" if case["perm"] is None else "p", case["trans"])
    rel = abs(e - e0) / (1 + abs(e0))
    if not rel <= TOL:
        fails.append({"key": "energy-not-invariant;%s;%s" % (ck, kind), "msg": "Exc = %.14g for the transformed molecule (word %s, perm %s, trans %s) vs %.14g: rel %.3e" % (e, word, case["perm"], case["trans"], e0, rel)})
    if np.abs(n - n0).max() > 1e-11 * (1 + np.abs(n0).max()):
        fails.append({"key": "nelec-not-invariant;%s;%s" % (ck, kind), "msg": "nelec changes under the transformation: %s vs %s" % (n, n0)})
    vexp = U @ v0 @ U.T if nspin == 1 else np.array([U @ x @ U.T for x in v0])
    dv = np.abs(v - vexp).max() / (1 + np.abs(v0).max())
    if not dv <= TOL_V:
        fails.append({"key": "vmat-not-covariant;%s;%s" % (ck, kind), "msg": "vmat' != U vmat U^T: rel %.3e (word %s, perm %s, trans %s)" % (dv, word, case["perm"], case["trans"])})
    if f is not None and f0 is not None:
        # co-moved points: r' = R r + t
        back = (ks.grids.coords - t) @ R  # R^T (r' - t) as row vectors: (r'-t) @ R
        # nearest original point within 1e-8 Bohr (rounding coordinates to a lattice mis-assigns points that sit on a
        # rounding boundary)
        from scipy.spatial import cKDTree

        dist, idx = cKDTree(coords0).query(back, k=1)
        idx = np.where(dist < 1e-8, idx, -1)
        w = ks.grids.weights
        real = w != 0  # alignment padding points carry zero weight and placeholder coordinates that do not move with the molecule
        if (idx[real] < 0).any():
            fails.append({"key": "grid-not-mapped;%s;%s" % (ck, kind), "msg": "%d grid points of the transformed molecule are not images of original grid points" % int((idx[real] < 0).sum())})
        else:
            sel = w > 0
            df = np.abs(f[:, sel] - f0[:, idx[sel]]).max() / (1 + np.abs(f0).max())
            if not df <= 1e-9:
                j = int(np.argmax(np.abs(f[:, sel] - f0[:, idx[sel]]).max(1)))
                fails.append({"key": "features-not-invariant;%s;%s" % (ck, kind), "msg": "per-point NLDF feature %d differs at co-moved points: rel %.3e (word %s, perm %s)" % (j, df, word, case["perm"])})
    # children: generators first (BFS closure), then permutations / translations from selected states
    children = []
    Rkey = tuple(R.ravel().tolist())
    state = "%s|%s|%s|%s" % (ck, Rkey, case["perm"], case["trans"])
    if not fails and case["perm"] is None and case["trans"] == "t0":
        for g in GENS:
            children.append(dict(case, word=word + [g]))
        if len(word) <= 1:
            natm = mol0.natm
            for p in itertools.permutations(range(natm)):
                if list(p) != list(range(natm)):
                    children.append(dict(case, perm=list(p)))
            for tn in ("t1", "t2"):
                children.append(dict(case, trans=tn))
                if len(word) == 1 and natm > 1:
                    children.append(dict(case, trans=tn, perm=list(range(natm))[::-1]))
    return {"fail": fails, "evals": 1, "edges": 1, "outcome": [state, float("%.10e" % e)], "children": children, "state": state if (word or case["perm"] or case["trans"] != "t0") else None}


def _euler(k):
    ang = [(0.37, 1.13, 2.41), (1.9, 0.55, 0.2), (2.7, 2.1, 1.3)][k]
    a, b, c = ang
    Rz = lambda x: np.array([[np.cos(x), -np.sin(x), 0], [np.sin(x), np.cos(x), 0], [0, 0, 1]])
    Ry = lambda x: np.array([[np.cos(x), 0, np.sin(x)], [0, 1, 0], [-np.sin(x), 0, np.cos(x)]])
    return Rz(a) @ Ry(b) @ Rz(c)


def run_rotation(case):
    from mc import fixtures as F

    molname, fam, seed = case["mol"], case["fam"], case["seed"]
    R = _euler(case["euler"])
    fails = []
    errs = []
    for ag in ((20, 50), (40, 194)):
        mol0, mol, U = _transformed(molname, R, None, np.zeros(3))
        mol0 = _transformed(molname, np.eye(3), None, np.zeros(3))[1]
        st = F.feature_settings(fam)
        ml = F.make_mlxc(st, evals=("RBF",), mode="SEP", seed=seed)
        dm0 = F.make_dm(mol0, "D1", seed)
        es = []
        for m, dm in ((mol0, dm0), (mol, U @ dm0 @ U.T)):
            ks = F.make_ks(m, ml, nspin=1, atom_grid=ag, lmax=6, xmix=0.5, xkernel="GGA_X_PBE", ckernel="GGA_C_PBE")
            es.append(float(F.nr(ks, dm)[1]))
        errs.append(abs(es[1] - es[0]) / (1 + abs(es[0])))
    ck = "mol=%s;fam=%s;euler=%d" % (molname, fam, case["euler"])
    if not errs[1] <= 2e-5:
        fails.append({"key": "rotation-energy;%s" % ck, "msg": "energy changes by rel %.3e under an arbitrary rotation on the (40,194) grid" % errs[1]})
    # a coarse-grid discrepancy can be accidentally tiny (seed 7: 3.7e-7 -> 1.3e-6): the refinement clause only applies above 5e-6
    if not errs[1] <= max(errs[0] * 1.5, 5e-6):
        fails.append({"key": "rotation-not-converging;%s" % ck, "msg": "rotation discrepancy does not shrink under grid refinement: %.3e -> %.3e" % (errs[0], errs[1])})
    return {"fail": fails, "evals": 4, "edges": 1, "outcome": [ck, float("%.3e" % errs[0]), float("%.3e" % errs[1])], "info": {"errs": errs}}


class _PointGrid:
    def __init__(self, mol, coords):
        self.mol, self.coords, self.weights = mol, np.ascontiguousarray(coords), np.ones(len(coords))
        self.non0tab, self.cutoff = None, 0


def run_nlof(case):
    from ciderpress.pyscf.descriptors import _fl_desc_getter

    from mc import fixtures as F

    molname, seed = case["mol"], case["seed"]
    R = _euler(case["euler"])
    if case["refl"]:
        R = R @ np.diag([1.0, 1.0, -1.0])
    t = np.zeros(3) if case["trans"] == "t0" else np.array([0.3, -1.1, 2.2])
    natm = F.make_mol(molname).natm
    perm = list(range(natm))[::-1] if case["perm"] else None
    mol0, mol, U = _transformed(molname, R, perm, t)
    mol0 = _transformed(molname, np.eye(3), None, np.zeros(3))[1]
    st = F.nlof_settings(case["cls"])
    rng = np.random.RandomState(5)
    coords = mol0.atom_coords()[rng.randint(0, mol0.natm, 14)] + rng.randn(14, 3) * 0.7
    dm0 = F.make_dm(mol0, "D1", seed)
    f0 = np.asarray(_fl_desc_getter(mol0, _PointGrid(mol0, coords), dm0, st))
    f1 = np.asarray(_fl_desc_getter(mol, _PointGrid(mol, coords @ R.T + t), U @ dm0 @ U.T, st))
    ck = "mol=%s;cls=%s;euler=%d;refl=%s;perm=%s;trans=%s" % (molname, case["cls"], case["euler"], case["refl"], case["perm"], case["trans"])
    fails = []
    worst = 0.0
    for j in range(f0.shape[0]):
        d = np.abs(f1[j] - f0[j]).max() / (np.abs(f0[j]).max() + 1e-300)
        worst = max(worst, d)
        if not d <= 1e-9:
            fails.append({"key": "nlof-feature-not-invariant;%s;feat=%d" % (ck, j),
                          "msg": "fractional-Laplacian feature %d at co-moved points changes by %.3e of its scale under a rigid motion / relabelling" % (j, d)})
    return {"fail": fails, "evals": 2, "edges": 1, "outcome": [ck, [float("%.9e" % x) for x in f0.sum(1)]], "info": {"worst": worst}}


def run_sdmxpt(case):
    from ciderpress.pyscf.sdmx import PySCFSDMXInitializer

    from mc import fixtures as F

    molname, seed = case["mol"], case["seed"]
    R = _euler(case["euler"])
    if case["refl"]:
        R = R @ np.diag([1.0, 1.0, -1.0])
    t = np.zeros(3) if case["trans"] == "t0" else np.array([0.3, -1.1, 2.2])
    natm = F.make_mol(molname).natm
    perm = list(range(natm))[::-1] if case["perm"] else None
    mol0, mol, U = _transformed(molname, R, perm, t)
    mol0 = _transformed(molname, np.eye(3), None, np.zeros(3))[1]
    st = F.sdmx_settings(case["cls"])
    rng = np.random.RandomState(5)
    coords = np.ascontiguousarray(mol0.atom_coords()[rng.randint(0, mol0.natm, 14)] + rng.randn(14, 3) * 0.7)
    dm0 = F.make_dm(mol0, "D1", seed)
    g0 = PySCFSDMXInitializer(st, lowmem=False).initialize_sdmx_generator(mol0, 1)
    g1 = PySCFSDMXInitializer(st, lowmem=False).initialize_sdmx_generator(mol, 1)
    f0 = np.asarray(g0.get_features(dm0, mol0, coords))
    f1 = np.asarray(g1.get_features(U @ dm0 @ U.T, mol, np.ascontiguousarray(coords @ R.T + t)))
    ck = "mol=%s;cls=%s;euler=%d;refl=%s;perm=%s;trans=%s" % (molname, case["cls"], case["euler"], case["refl"], case["perm"], case["trans"])
    fails = []
    worst = 0.0
    for j in range(f0.shape[0]):
        d = np.abs(f1[j] - f0[j]).max() / (np.abs(f0[j]).max() + 1e-300)
        worst = max(worst, d)
        if not d <= 1e-9:
            fails.append({"key": "sdmx-feature-not-invariant;%s;feat=%d" % (ck, j),
                          "msg": "SDMX feature %d at co-moved points changes by %.3e of its scale under a rigid motion / relabelling" % (j, d)})
    return {"fail": fails, "evals": 2, "edges": 1, "outcome": [ck, [float("%.9e" % x) for x in f0.sum(1)]], "info": {"worst": worst}}


def run_case(case):
    if case["kind"] == "sdmxpt":
        return run_sdmxpt(case)
    if case["kind"] == "nlof":
        return run_nlof(case)
    if case["kind"] == "orbit":
        return run_orbit(case)
    return run_rotation(case)
