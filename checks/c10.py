"""C10 - results are independent of the OpenMP thread count and schedule.
Engine E3 (stateless schedule exploration of the real C code under shim/vgomp.c),
DESIGN.md section 5/C10 and appendix A.

Case kinds
  explore  one harness body (checks/c10_entries.py) x team size: EVERY schedule with at most
           d deviations from the canonical non-preemptive schedule at synchronisation
           granularity (region start, barrier, each dynamic chunk hand-out, single, critical,
           thread exit); oracle: outputs equal to the team-of-one run, no deadlock, runtime
           invariants (each iteration handed out exactly once, same barrier sequence).
  sweep    the same body at team sizes 1..16 under five canonical policies (non-preemptive,
           round-robin, highest-id-first, always-preempt, last-enabled-first).
  e2edev   end-to-end nr_rks / nr_uks: all single-deviation schedules, sharded by the index of
           the deviation (thorough).
  libgomp  real libgomp at OMP_NUM_THREADS in {1,2,3,4,7,8,16}, three repetitions each
           (reproducibility clause), in a sub-process.
  tsan     race pass: -fsanitize=thread objects, vgomp FREE-RUNNING on pthread primitives under
           the real libtsan (sub-process); reports located in repository code are CANDIDATES.
  race     each candidate's access sites are promoted to scheduling points (vgomp's own
           __tsan_* hooks, no libtsan) and explored with the same search; a candidate is a
           violation iff some explored schedule changes an output.
"""
import json
import os
import subprocess
import sys

import numpy as np

ID = "C10"
VARIANT = "sched"
LEVEL_RULE = (
    "states = executions (distinct schedules) of each harness body; transitions = scheduling points decided; every "
    "execution runs the real C code under the controlled runtime; outcome = (entry, output hash); distinct = distinct "
    "(entry, team-1 output hash) plus distinct schedule-dependent outputs if any"
)
ASSUMPTIONS = [
    "interleavings at synchronisation granularity plus, for ThreadSanitizer race candidates, at the racing accesses; sequential consistency (no weak-memory reorderings)",
    "BLAS is single threaded inside vgomp runs, so outputs must agree bitwise; differences below 1e-12 relative are counted as reassociation-level and reported, not alarmed",
    "nr_numint.c (libnumint is loaded by no Python module), pbc_tools.c, GPAW-only and caller-less C functions are not driven; the evidence lists every OpenMP region function and whether it was entered",
    "team sizes up to 16; problem sizes {1,2,3,5,8,17,130} for the size-parameterised bodies",
]
NPROC = 16
REASSOC = 1e-12


def _pid(p):
    return ";".join("%s=%s" % (k, p[k]) for k in sorted(p) if k not in ("seed",))


def initial_cases(tier, seed):
    from checks import c10_entries as E

    quick = tier == "quick"
    cases = []
    # long sub-process cases first so that they overlap with the in-process explorations
    cases.append({"kind": "tsan", "team": 4, "tier": tier, "seed": seed})
    for nt in ([2, 3, 16] if quick else [2, 3, 4, 7, 8, 16]):
        cases.append({"kind": "libgomp", "threads": [1, nt], "reps": 3, "tier": tier, "seed": seed})
    # the runtime may grant a smaller team than omp_get_max_threads() announces (thread limit, dynamic adjustment): code that
    # sizes or partitions by the announced number instead of the team it runs in is only exposed when the two differ
    for nt, lim in ([(4, 3)] if quick else [(4, 3), (8, 5), (16, 7), (3, 2)]):
        cases.append({"kind": "libgomp", "threads": [1, nt], "limit": lim, "reps": 2, "tier": tier, "seed": seed})
    if not quick:
        cases.append({"kind": "tsan", "team": 2, "tier": tier, "seed": seed})
        cases.append({"kind": "tsan", "team": 8, "tier": tier, "seed": seed})
    tab = E.entry_table(tier)
    for p in tab:
        p = dict(p, seed=seed)
        cases.append({"kind": "explore", "p": p, "team": 2, "bound": 1 if quick else 2})
        if not quick or p["entry"] in ("c05", "gen_build", "sdmx") and p.get("layout", "He-5x14-l2") == "He-5x14-l2":
            cases.append({"kind": "explore", "p": p, "team": 3, "bound": 1 if quick else 2})
        cases.append({"kind": "sweep", "p": p, "teams": [1, 2, 3, 16] if quick else list(range(1, 17))})
    for p in E.e2e_table(tier):
        p = dict(p, seed=seed)
        cases.append({"kind": "sweep", "p": p, "teams": [1, 2, 3, 16] if quick else list(range(1, 17))})
        if not quick:
            for lo in range(0, 4000, 250):
                cases.append({"kind": "e2edev", "p": p, "team": 2, "range": [lo, lo + 250]})
    return cases


def case_label(c):
    if "p" in c:
        return "%s team=%s bound=%s %s" % (c["kind"], c.get("team", c.get("teams")), c.get("bound", "-"), _pid(c["p"]))
    return json.dumps({k: v for k, v in c.items() if k != "seed"})


def _compare(ref, out):
    """0 equal bitwise, 1 reassociation-level, 2 different."""
    if len(ref) != len(out):
        return 2, float("inf")
    worst = 0.0
    level = 0
    for a, b in zip(ref, out):
        a = np.asarray(a)
        b = np.asarray(b)
        if a.shape != b.shape:
            return 2, float("inf")
        if np.array_equal(a, b):
            continue
        if not (np.all(np.isfinite(a)) and np.all(np.isfinite(b))):
            if np.array_equal(np.isnan(a), np.isnan(b)) and np.array_equal(np.nan_to_num(a), np.nan_to_num(b)):
                continue
            return 2, float("inf")
        rel = float(np.abs(a - b).max() / (np.abs(a).max() + 1e-300))
        worst = max(worst, rel)
        level = max(level, 1 if rel <= REASSOC else 2)
    return level, worst


def _checker(ref, p, team, reassoc_box):
    from mc import vgomp

    def check(run, prefix):
        if isinstance(prefix, list):
            prefix = {"len": len(prefix), "nonzero": [[i, c] for i, c in enumerate(prefix) if c]}
        if run.status & 1:
            return {"kind": "deadlock", "prefix": prefix, "msg": run.message}
        if run.status & 4:
            return {"kind": "invariant", "prefix": prefix, "msg": run.message}
        if run.status & 8:
            return {"kind": "trace-overflow", "prefix": prefix, "msg": run.message}
        lvl, worst = _compare(ref.output, run.output)
        if lvl == 1:
            reassoc_box[0] += 1
        if lvl == 2:
            return {"kind": "schedule-dependent", "prefix": prefix, "worst": worst,
                    "msg": "output differs from the team-of-one run (rel %.3e) under team %d, schedule of %d decisions with non-default choices %s" % (
                        worst, team, prefix["len"], prefix["nonzero"][-6:])}
        return None

    return check


def _fail_from_stats(stats, p, team, what):
    fails = []
    seen = set()
    for f in stats["failures"]:
        key = "%s;%s;%s" % (f["kind"], what, _pid(p))
        if key in seen:
            continue
        seen.add(key)
        fails.append({"key": key, "msg": f["msg"], "team": team, "schedule": f.get("prefix")})
    return fails


def run_explore(case):
    from checks import c10_entries as E

    from mc import vgomp

    p = case["p"]
    fn, keep = E.build(p)
    ref = vgomp.execute(fn, (), team=1)
    box = [0]
    check = _checker(ref, p, case["team"], box)
    rng = case.get("range")
    # iterate the bound: every schedule with <= 1 deviation is always explored to completion; the second level runs
    # under a wall-clock budget and reports honestly whether it completed (evidence: bound2_completed / bound2_capped)
    b1 = min(case["bound"], 1)
    stats = vgomp.explore(fn, case["team"], b1, check, first_dev_range=tuple(rng) if rng else None,
                          max_exec=case.get("max_exec", 60000))
    bound_done = b1 if not stats["capped"] else 0
    if case["bound"] >= 2 and not stats["failures"]:
        s2 = vgomp.explore(fn, case["team"], 2, check, first_dev_range=tuple(rng) if rng else None,
                           max_exec=case.get("max_exec", 60000), time_budget=case.get("time_budget", 60.0))
        s2["executions"] += stats["executions"]
        if not s2["capped"]:
            bound_done = 2
        s2["capped_level2"] = s2["capped"]
        s2["capped"] = stats["capped"]
        stats = s2
    fails = _fail_from_stats(stats, p, case["team"], "explore")
    # replay determinism of one recorded schedule (twice, identical observations)
    if stats["points_max"] > 0 and not fails:
        pre = [1] if stats["points_max"] >= 1 else []
        r1 = vgomp.execute(fn, pre, case["team"])
        r2 = vgomp.execute(fn, pre, case["team"])
        if r1.npoints != r2.npoints or list(r1.nen) != list(r2.nen) or _compare(r1.output, r2.output)[0] != 0:
            fails.append({"key": "harness-nondeterministic;%s" % _pid(p), "confirm": False,
                          "msg": "the same schedule replayed twice gave different observations"})
    return {"fail": fails, "evals": stats["executions"], "edges": stats["executions"] * max(stats["points_max"], 1),
            "outcome": [_pid(p), vgomp.out_hash(ref.output)],
            "info": {"executions": stats["executions"], "points": stats["points_max"], "kinds": stats["kinds"],
                     "capped": stats["capped"], "bound_completed": bound_done, "reassoc": box[0], "regions": ref.regions},
            "regions": sorted(vgomp.region_functions()), "capped": stats["capped"]}


def run_sweep(case):
    from checks import c10_entries as E

    from mc import vgomp

    p = case["p"]
    fn, keep = E.build(p)
    ref = vgomp.execute(fn, (), team=1)
    fails = []
    ev = 1
    pts = 0
    box = [0]
    for T in case["teams"]:
        for pol in (0, 1, 2, 3, 4):
            if T == 1 and pol:
                continue
            r = vgomp.execute(fn, (), team=T, policy=pol)
            ev += 1
            pts += r.npoints
            f = _checker(ref, p, T, box)(r, {"len": 0, "nonzero": [], "policy": pol})
            if f:
                fails.append({"key": "%s;sweep;%s" % (f["kind"], _pid(p)), "msg": f["msg"] + " (team %d, policy %d)" % (T, pol), "team": T, "policy": pol})
                break
        if fails:
            break
    return {"fail": fails, "evals": ev, "edges": pts, "outcome": [_pid(p), vgomp.out_hash(ref.output)],
            "info": {"points_total": pts, "reassoc": box[0]}, "regions": sorted(vgomp.region_functions())}


def _sub(args, env_extra, timeout=3000):
    from mc.boot import VERIF, det_env

    env = det_env()
    env.update(env_extra)
    env["VERIF_REEXEC"] = "1"
    r = subprocess.run(["/venv/bin/python", os.path.join(VERIF, "mc", "c10_sub.py")] + args, stdout=subprocess.PIPE,
                       stderr=subprocess.PIPE, text=True, env=env, cwd=VERIF, timeout=timeout)
    return r


def run_libgomp(case):
    """Real libgomp: outputs at each thread count / repetition vs the single-thread run."""
    fails = []
    res = {}
    evals = 0
    for nt in case["threads"]:
        env = {"OMP_NUM_THREADS": str(nt)}
        if case.get("limit") and nt > 1:
            env.update({"OMP_THREAD_LIMIT": str(case["limit"]), "OMP_DYNAMIC": "false"})
        r = _sub(["libgomp", case["tier"], str(case["seed"]), str(case["reps"])], env)
        if r.returncode != 0:
            fails.append({"key": "libgomp-run-failed;threads=%d" % nt, "msg": "sub-process failed: %s" % r.stderr[-400:]})
            continue
        res[nt] = json.loads(r.stdout.strip().splitlines()[-1])
    base = res.get(case["threads"][0])
    worst = 0.0
    for nt, d in res.items():
        for name, reps in d.items():
            evals += len(reps)
            for k, vals in enumerate(reps):
                b = base[name][0]
                for a, c in zip(b, vals):
                    a = np.asarray(a)
                    c = np.asarray(c)
                    rel = float(np.abs(a - c).max() / (np.abs(a).max() + 1e-300)) if a.shape == c.shape else float("inf")
                    worst = max(worst, rel)
                    if not rel <= 1e-11:
                        fails.append({"key": "libgomp-thread-dependent;%s%s" % (name, ";team<max" if case.get("limit") else ""),
                                      "msg": "output of %s at OMP_NUM_THREADS=%d%s (repetition %d) differs from the single-thread run: rel %.3e" % (
                                          name, nt, " with OMP_THREAD_LIMIT=%d" % case["limit"] if case.get("limit") else "", k, rel)})
    # The real runtime samples schedules: a racy routine shows up in different bodies from run to run.  One failure per
    # case with a key that names only the configuration, so that "reproduced in a fresh process" means "thread dependence
    # observed again in this configuration", and the bodies go into the message.
    dep = [f for f in fails if f["key"].startswith("libgomp-thread-dependent")]
    other = [f for f in fails if not f["key"].startswith("libgomp-thread-dependent")]
    if dep:
        names = sorted(set(f["key"].split(";", 1)[1] for f in dep))
        other.append({"key": "libgomp-thread-dependent;threads=%s%s" % (case["threads"][-1], ";limit=%d" % case["limit"] if case.get("limit") else ""),
                      "msg": "%d output(s) differ from the single-thread run, e.g. %s | bodies: %s" % (len(dep), dep[0]["msg"], "; ".join(names[:6]))})
    return {"fail": other, "evals": evals, "edges": evals, "outcome": ["libgomp", float("%.3e" % worst)], "info": {"worst_rel": worst}}


def run_tsan(case):
    """Race pass, then promotion of every candidate to scheduling points."""
    import glob

    from mc.boot import VERIF

    libtsan = subprocess.run(["gcc", "-print-file-name=libtsan.so"], stdout=subprocess.PIPE, text=True).stdout.strip()
    r = _sub(["tsan", case["tier"], str(case["seed"]), str(case["team"])],
             {"LD_PRELOAD": libtsan, "TSAN_OPTIONS": "halt_on_error=0 report_signal_unsafe=0 exitcode=0 second_deadlock_stack=0 history_size=3",
              "OMP_NUM_THREADS": "1"}, timeout=3400)
    fails = []
    if "C10SUB-DONE" not in r.stdout:
        return {"fail": [{"key": "tsan-pass-failed", "confirm": False, "msg": "race pass did not complete: rc=%s %s" % (r.returncode, (r.stderr or "")[-600:])}],
                "evals": 0, "outcome": "tsan-failed"}
    cands = parse_tsan(r.stderr)
    nrun = int([l for l in r.stdout.splitlines() if l.startswith("C10SUB-RAN")][0].split()[1])
    info = {"entries_run": nrun, "reports_in_repo_code": len(cands), "candidates": []}
    evals = nrun
    for cand in cands:
        q = _sub(["race", case["tier"], str(case["seed"]), json.dumps(cand)], {"OMP_NUM_THREADS": "1"}, timeout=3000)
        last = [l for l in q.stdout.splitlines() if l.startswith("C10SUB-RACE ")]
        if q.returncode != 0 or not last:
            fails.append({"key": "race-explore-failed;%s" % cand["id"], "confirm": False, "msg": "promotion run failed: %s" % (q.stderr or "")[-500:]})
            continue
        d = json.loads(last[-1][len("C10SUB-RACE "):])
        evals += d["executions"]
        info["candidates"].append({"id": cand["id"], "sites": cand["sites"], "entry": cand["entry"], "executions": d["executions"],
                                   "race_points_hit": d["race_hits"], "verdict": d["verdict"], "pcs": d["npcs"]})
        if d["verdict"] == "schedule-dependent":
            fails.append({"key": "race-changes-output;%s" % cand["id"],
                          "msg": "data race at %s: schedule %s (team %d) changes the output of %s (rel %.3e)" % (
                              cand["sites"], d.get("prefix"), d.get("team", 2), cand["entry"], d.get("worst", 0)),
                          "schedule": d.get("prefix")})
        elif d["race_hits"] == 0:
            fails.append({"key": "race-unresolved;%s" % cand["id"], "confirm": False,
                          "msg": "race candidate %s could not be mapped to scheduling points" % cand["sites"]})
    return {"fail": fails, "evals": evals, "edges": evals, "outcome": ["tsan", case["team"], len(cands)], "info": info}


def parse_tsan(text):
    """Extract race reports whose access stacks contain a frame in the repository's libraries.
    Returns candidates {id, sites:[file:line,...], entry}."""
    cands = {}
    cur_entry = None
    blocks = []
    cur = None
    for line in text.splitlines():
        if line.startswith("C10SUB-ENTRY "):
            cur_entry = line[len("C10SUB-ENTRY "):].strip()
            continue
        if "WARNING: ThreadSanitizer: data race" in line:
            cur = {"entry": cur_entry, "lines": []}
            blocks.append(cur)
            continue
        if cur is not None:
            if line.startswith("SUMMARY: ThreadSanitizer"):
                cur = None
            else:
                cur["lines"].append(line)
    import re

    fr = re.compile(r"#\d+ (\S+) (\S+?):(\d+)(?::\d+)? \((libmcider|libfft_wrapper|libnumint)\.so\+0x([0-9a-f]+)\)")
    for b in blocks:
        # the first two stacks of a report are the two accesses
        stacks = []
        st = None
        for l in b["lines"]:
            s = l.strip()
            if s.startswith(("Write of size", "Read of size", "Previous write of size", "Previous read of size", "Atomic", "Previous atomic")):
                st = []
                stacks.append(st)
                continue
            if s == "" or s.startswith(("Location is", "Thread T", "Mutex")):
                st = None
                continue
            if st is not None and s.startswith("#"):
                st.append(s)
        sites = []
        for stx in stacks[:2]:
            for f in stx:
                m = fr.search(f)
                if m:
                    sites.append("%s:%s:%s" % (os.path.basename(m.group(2)), m.group(3), m.group(1)))
                    break
        if not sites:
            continue
        cid = "+".join(sorted(set(sites)))
        if cid not in cands:
            cands[cid] = {"id": cid, "sites": sorted(set(sites)), "entry": b["entry"]}
    return list(cands.values())


def run_case(case):
    k = case["kind"]
    if k in ("explore", "e2edev"):
        if k == "e2edev":
            case = dict(case, bound=1)
        return run_explore(case)
    if k == "sweep":
        return run_sweep(case)
    if k == "libgomp":
        return run_libgomp(case)
    if k == "tsan":
        return run_tsan(case)
    raise ValueError(k)


def finish(tier, seed, cases, results):
    from mc import vgomp
    from mc.build import build

    d = build("sched")
    allf = vgomp.all_region_functions(d)
    got = set()
    capped = 0
    execs = 0
    pts = 0
    reassoc = 0
    cand = []
    for r in results:
        got.update(r.get("regions", []))
        capped += int(bool(r.get("capped")))
        info = r.get("info") or {}
        execs += info.get("executions", 0)
        pts = max(pts, info.get("points", 0))
        reassoc += info.get("reassoc", 0)
        cand += info.get("candidates", [])
    entered = sorted(allf[k] for k in allf if k in got)
    missing = sorted(allf[k] for k in allf if k not in got)
    total_exec = sum(int(r.get("evals", 0)) for r in results)
    cov = {
        "states": max(total_exec, 1), "traces_validated_against_impl": total_exec,
        "states_note": "every state is one executed schedule of one harness body (real C code under vgomp), plus the sub-process runs",
        "schedules_executed": execs, "max_scheduling_points_in_one_execution": pts,
        "completed_deviation_bound": 1,
        "bodies_with_deviation_bound_2_completed": sum(1 for r in results if (r.get("info") or {}).get("bound_completed") == 2),
        "bodies_with_deviation_bound_2_stopped_by_time_budget": sum(1 for c, r in zip(cases, results) if c.get("kind") in ("explore", "e2edev") and c.get("bound", 1) >= 2 and (r.get("info") or {}).get("bound_completed", 0) < 2),
        "omp_region_functions_total": len(allf), "omp_region_functions_entered": len(entered),
        "omp_region_functions_not_entered": missing,
        "reassociation_level_differences": reassoc, "race_candidates": cand,
        "exhaustive": capped == 0,
    }
    if capped:
        cov["caps_hit"] = ["%d explorations stopped at the execution cap" % capped]
    return {"coverage": cov}
