"""C19 - CIDER integration grids are PySCF's grids plus an exact index map.
Engine E2 (history BFS over the real CiderGrids object), DESIGN.md section 5/C19.

State      = history of operations applied to ONE CiderGrids object; canonical key = (settings,
             hash of coords/weights/idx_map), so equal grids reached by different histories merge.
Operations = build(sort_grids, with_non0tab), build(mol=<the same atoms listed in reverse order>) on the
             object constructed for the original order (the grid is then one "built for" the molecule
             passed in, and every table must describe that molecule), prune_by_density_(rho, threshold)
             (repeatable), reset(), change of level / atom_grid / prune / alignment followed by build.
Invariants = multiset {(coords, weight)} equals that of pyscf.dft.Grids with the same settings
             put through the same prunings (bitwise after lexicographic sort); idx_map injective
             into the atom-ordered grid with all_weights[idx_map] == weights; owning atoms and
             radial shells consistent with the tables; padding points carry zero weight;
             index tables monotone and mutually consistent; per radial shell the tabulated real
             spherical harmonics are orthonormal under the shell's angular quadrature up to the
             degree it supports and exactly zero above it.
"""
import hashlib
import itertools

import numpy as np

ID = "C19"
VARIANT = "plain"
LEVEL_RULE = (
    "states = canonical grid states reached by BFS over build/prune/reset/reconfigure histories (depth 3) for each "
    "(molecule, lmax); every state is compared with an independently built and identically pruned PySCF grid and "
    "all index-map / table / Y_lm invariants; outcome = grid hash"
)
ASSUMPTIONS = [
    "default radial scheme and Becke partition (custom radi_method / becke_scheme not enumerated)",
    "density used for pruning is the superposition of s-type Gaussians on the atoms scaled to the electron count (any density is admissible for the property)",
    "lmax values {4, 6, 10, 12}; the harness passes full_lmax explicitly (the constructor default only supports lmax = 10, which is a rejection not a wrong grid)",
]
DEPTH = 3
MOLS = ["He", "LiH", "H2O", "OH", "HOH", "HSH", "HOHlab"]
LMAXS = [4, 6, 10, 12]  # 12: above the package default, where shells of 170-302 points are the ones to be truncated
OPS = [
    "build", "build:nosort", "build:non0", "build:othermol", "prune:1e-12", "prune:1e-6", "prune:1e-2", "prune:0", "reset",
    "set:level1", "set:grid15x26", "set:grid20x50", "set:grid-elem", "set:prune-none", "set:prune-nwchem", "set:align1", "set:align8",
]


def initial_cases(tier, seed):
    cases = []
    mols = MOLS if tier == "quick" else MOLS + ["NH3", "HF"]
    for m, l in itertools.product(mols, LMAXS):
        if tier == "quick" and l >= 10 and m not in ("He", "H2O"):
            continue
        cases.append({"mol": m, "lmax": l, "hist": [], "seed": seed})
    return cases


def case_label(c):
    return "mol=%s;lmax=%d;hist=%s" % (c["mol"], c["lmax"], ",".join(c["hist"]))


def _density(mol, coords):
    rho = np.zeros(coords.shape[0])
    for ia in range(mol.natm):
        z = mol.atom_charge(ia)
        r2 = ((coords - mol.atom_coord(ia)) ** 2).sum(1)
        a = 0.9 + 0.2 * z
        rho += z * (a / np.pi) ** 1.5 * np.exp(-a * r2)
    return rho


def _reversed_mol(mol):
    """The same atoms (labels, coordinates, basis, spin) listed in reverse order; None for one atom."""
    from pyscf import gto

    if mol.natm < 2:
        return None
    atom = [(mol.atom_symbol(i), tuple(mol.atom_coord(i))) for i in reversed(range(mol.natm))]
    return gto.M(atom=atom, basis=mol.basis, spin=mol.spin, verbose=0, unit="Bohr")


def _apply(mol, lmax, hist):
    """Replay the history on a fresh CiderGrids and, in lock step, on a PySCF Grids reference.
    Returns (g, r, built, cur) with cur the molecule the present grid was built for."""
    from pyscf.dft import gen_grid

    from ciderpress.pyscf.gen_cider_grid import CiderGrids

    g = CiderGrids(mol, lmax=lmax)
    r = gen_grid.Grids(mol)
    for x in (g, r):
        x.level = 0
    built = False
    cur = mol
    log = []
    for op in hist:
        if op == "build:othermol":
            other = _reversed_mol(mol)
            if other is None:
                return None
            g.build(mol=other, full_lmax=lmax)
            r.build(mol=other)
            built = True
            cur = other
        elif op.startswith("build"):
            sort = op != "build:nosort"
            g.build(with_non0tab=(op == "build:non0"), sort_grids=sort, full_lmax=lmax)
            r.build(with_non0tab=(op == "build:non0"), sort_grids=sort)
            built = True
            cur = mol
        elif op.startswith("prune:"):
            if not built:
                return None
            thr = float(op.split(":")[1])
            rho_g = _density(cur, g.coords)
            rho_r = _density(cur, r.coords)
            # scale to the electron count so that the pruning branch is taken
            rho_g *= mol.nelectron / np.dot(rho_g, g.weights)
            rho_r *= mol.nelectron / np.dot(rho_r, r.weights)
            g.prune_by_density_(rho_g, threshold=thr)
            r.prune_by_density_(rho_r, threshold=thr)
        elif op == "reset":
            g.reset()
            r.reset()
            built = False
        elif op.startswith("set:"):
            what = op[4:]
            for x in (g, r):
                if what == "level1":
                    x.level = 1
                    x.atom_grid = {}
                elif what == "grid-elem":
                    # per-element sizes: hydrogen gets a different radial/angular table than the other elements
                    x.atom_grid = {mol.atom_symbol(i): ((15, 26) if mol.atom_symbol(i) == "H" else (20, 50)) for i in range(mol.natm)}
                elif what.startswith("grid"):
                    a, b = what[4:].split("x")
                    x.atom_grid = (int(a), int(b))
                elif what == "prune-none":
                    x.prune = None
                elif what == "prune-nwchem":
                    x.prune = gen_grid.nwchem_prune
                elif what == "align1":
                    x.alignment = 1
                elif what == "align8":
                    x.alignment = 8
            built = False
        log.append(op)
    return g, r, built, cur


def _sorted_rows(coords, weights):
    a = np.column_stack([coords, weights])
    idx = np.lexsort(a.T[::-1])
    return a[idx]


def _check(mol, lmax, g, r, ck):
    fails = []
    ind = g.grids_indexer
    n = ind.idx_map.size
    # (1) same multiset of points/weights as PySCF
    if g.coords.shape != r.coords.shape or not np.array_equal(_sorted_rows(g.coords, g.weights), _sorted_rows(r.coords, r.weights)):
        fails.append({"key": "points-differ;" + ck, "msg": "CiderGrids (%d points) is not the same multiset of (coords, weight) as the PySCF grid (%d points) built and pruned identically" % (g.weights.size, r.weights.size)})
    # (2) index map
    if np.unique(ind.idx_map).size != n or ind.idx_map.min() < 0 or ind.idx_map.max() >= ind.all_weights.size:
        fails.append({"key": "idxmap-not-injective;" + ck, "msg": "idx_map is not an injection into the atom-ordered grid"})
    else:
        if not np.array_equal(ind.all_weights[ind.idx_map], g.weights[:n]):
            fails.append({"key": "idxmap-weights;" + ck, "msg": "all_weights[idx_map] != weights"})
        pad = g.weights.size - n
        if pad != ind.padding:
            fails.append({"key": "padding-count;" + ck, "msg": "indexer padding %d but grid has %d extra points" % (ind.padding, pad)})
        if pad and np.any(g.weights[n:] != 0.0):
            fails.append({"key": "padding-weight;" + ck, "msg": "padding points carry non-zero weight"})
        # owning atom and radial shell
        ia = ind.iatom_list
        ga = ind.ga_loc
        own = np.searchsorted(ga, ind.idx_map, side="right") - 1
        if ia.shape != (n,) or not np.array_equal(ia, own):
            fails.append({"key": "iatom-list;" + ck, "msg": "iatom_list does not name the atom whose atom-ordered block contains idx_map[g]"})
        shell = np.searchsorted(ind.rad_loc, ind.idx_map, side="right") - 1
        R = mol.atom_coords()[ind.ar_loc[shell]]
        dist = np.linalg.norm(g.coords[:n] - R, axis=1)
        if np.abs(dist - ind.rad_arr[shell]).max() > 1e-10 * (1 + ind.rad_arr.max()):
            fails.append({"key": "radial-shell;" + ck, "msg": "|coords - R(owning atom)| differs from rad_arr of the shell rad_loc assigns: %.3e" % np.abs(dist - ind.rad_arr[shell]).max()})
        # direction: coords = R + rad * dirs[ylm_loc[shell] + k]
        k = ind.idx_map - ind.rad_loc[shell]
        d = ind.dirs[ind.ylm_loc[shell] + k]
        rec = R + ind.rad_arr[shell][:, None] * d
        if np.abs(rec - g.coords[:n]).max() > 1e-9 * (1 + ind.rad_arr.max()):
            fails.append({"key": "directions;" + ck, "msg": "coords != R + rad * dirs[ylm_loc + k]: %.3e" % np.abs(rec - g.coords[:n]).max()})
    # (3) tables
    if not (np.all(np.diff(ind.rad_loc) > 0) and np.all(np.diff(ind.ra_loc) > 0) and np.all(np.diff(ind.ar_loc) >= 0)):
        fails.append({"key": "tables-monotone;" + ck, "msg": "rad_loc / ra_loc / ar_loc not monotone"})
    if ind.ra_loc[0] != 0 or ind.ra_loc[-1] != ind.nrad or ind.rad_loc[-1] != ind.all_weights.size or ind.ar_loc.size != ind.nrad:
        fails.append({"key": "tables-ends;" + ck, "msg": "index tables do not span the atom-ordered grid"})
    for a in range(mol.natm):
        if not np.all(ind.ar_loc[ind.ra_loc[a]:ind.ra_loc[a + 1]] == a):
            fails.append({"key": "tables-arloc;" + ck, "msg": "ar_loc inconsistent with ra_loc for atom %d" % a})
            break
    if not np.array_equal(ind.ga_loc, ind.rad_loc[ind.ra_loc]):
        fails.append({"key": "tables-galoc;" + ck, "msg": "ga_loc != rad_loc[ra_loc]"})
    # (4) spherical harmonics of every shell
    nlm = ind.nlm
    worst = 0.0
    for s in range(ind.nrad):
        nw = ind.rad_loc[s + 1] - ind.rad_loc[s]
        y = ind.ylm[ind.ylm_loc[s]:ind.ylm_loc[s] + nw]
        w = ind.all_weights[ind.rad_loc[s]:ind.rad_loc[s + 1]]
        # angular quadrature weights of the shell: Lebedev weights are recovered from the direction table
        # through the Becke-free atomic weights only for single atoms; use the l=0 normalisation instead:
        # Y_00^2 integrates to 1, so shell weights are proportional to the angular weights
        nz = np.abs(y).max(0) > 0
        lsup = int(np.sqrt(nz.sum() + 1e-9)) - 1
        if nz.sum() != (lsup + 1) ** 2 or np.any(nz[(lsup + 1) ** 2:]):
            fails.append({"key": "ylm-truncation;" + ck, "msg": "non-zero Y_lm columns of shell %d do not form a complete 0..l block" % s})
            break
    return fails


def _ylm_orthonormal(mol, lmax, g, ck):
    """Orthonormality under the shell's own angular quadrature, checked on the single-atom
    tables (weights of a lone atom's grid factor into radial x angular exactly)."""
    from pyscf.dft import gen_grid

    from ciderpress.pyscf import gen_cider_grid as G

    fails = []
    tabs = G.gen_atomic_grids_cider(mol, g.atom_grid, g.radi_method, g.level, g.prune, full_lmax=lmax)
    atom_grids_tab, lmax_tab, rad_loc_tab, ylm_tab, ylm_loc_tab, rad_tab, dr_tab = tabs
    worst = 0.0
    for symb in atom_grids_tab:
        coords, vol = atom_grids_tab[symb]
        rad_loc = rad_loc_tab[symb]
        ylm = ylm_tab[symb]
        yl = ylm_loc_tab[symb]
        for s in range(rad_loc.size - 1):
            w = vol[rad_loc[s]:rad_loc[s + 1]]
            nw = w.size
            y = ylm[yl[s]:yl[s] + nw]
            wang = w / w.sum() * 4 * np.pi
            # rad_loc / ylm_loc are ordered by angular size, lmax_tab is not: take the degree from the shell itself
            lsh = min(int(G.LMAX_DICT[nw]), lmax)
            nsup = (lsh + 1) ** 2
            # a Lebedev rule that supports degree 2*lsh(+1) integrates products of Y up to lsh exactly
            S = (y[:, :nsup] * wang[:, None]).T @ y[:, :nsup]
            err = np.abs(S - np.eye(nsup)).max()
            worst = max(worst, err)
            if err > 1e-10:
                fails.append({"key": "ylm-orthonormal;" + ck, "msg": "Y_lm of element %s shell %d (l<=%d, %d points) not orthonormal under the shell's quadrature: %.3e" % (symb, s, lsh, nw, err)})
                break
            if np.any(y[:, nsup:] != 0.0):
                fails.append({"key": "ylm-not-zero-above;" + ck, "msg": "Y_lm above the supported degree of shell %d of %s are not zero" % (s, symb)})
                break
            r = np.linalg.norm(coords[rad_loc[s]:rad_loc[s + 1]], axis=1)
            if np.abs(r - rad_tab[symb][s]).max() > 1e-12 * (1 + r.max()):
                fails.append({"key": "rad-tab;" + ck, "msg": "rad_tab of %s shell %d does not match the coordinates" % (symb, s)})
                break
    return fails, worst


def run_case(case):
    from mc import fixtures as F

    mol = F.make_mol(case["mol"])
    lmax = case["lmax"]
    hist = case["hist"]
    ck = "mol=%s;lmax=%d" % (case["mol"], lmax)
    fails = []
    res = _apply(mol, lmax, hist)
    children = []
    state = None
    outcome = ["unbuilt", case["mol"], lmax]
    evals = 1
    if res is not None:
        g, r, built, cur = res
        if built:
            tag = ck + ";last=%s" % (hist[-1].split(":")[0] if hist else "-")
            if cur is not mol:
                tag += ";built-for=reversed-atom-order"
            fails += _check(cur, lmax, g, r, tag)
            if hist and hist[-1].startswith("build"):
                f2, worst = _ylm_orthonormal(cur, lmax, g, ck)
                fails += f2
            h = hashlib.sha1()
            for a in (g.coords, g.weights, g.grids_indexer.idx_map):
                h.update(np.ascontiguousarray(a).tobytes())
            settings = (g.level, str(g.atom_grid), getattr(g.prune, "__name__", str(g.prune)), g.alignment, g.non0tab is None, cur is mol)
            state = "%s|%s|%s" % (ck, settings, h.hexdigest()[:16])
            outcome = [case["mol"], lmax, int(g.weights.size), h.hexdigest()[:12]]
        else:
            settings = (g.level, str(g.atom_grid), getattr(g.prune, "__name__", str(g.prune)), g.alignment)
            state = "%s|%s|unbuilt" % (ck, settings)
        if len(hist) < DEPTH and not fails:
            for op in OPS:
                if op.startswith("prune") and not built:
                    continue
                if op == "reset" and not built:
                    continue
                children.append({"mol": case["mol"], "lmax": lmax, "hist": hist + [op], "seed": case["seed"]})
    return {"fail": fails, "evals": evals, "edges": len(hist), "outcome": outcome, "children": children,
            "state": state if hist else None}
