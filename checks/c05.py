"""C05 - every reverse-mode operator is the exact adjoint of its forward operator.
Engine E1 + complete-basis probing, DESIGN.md section 5/C05.

State  = (operator pair, layout) where the layout enumerates atoms / lmax / angular
         sizes / nalpha / feature family (which fixes the convolution contributions) /
         plan type / interpolator back end / offsets and strides / thread count.
Oracle = the forward routine A is applied to EVERY unit vector of its input space and
         the backward routine B to EVERY unit vector of its output space; the two full
         matrices must satisfy B == A^T entrywise (so <Ax,y> = <x,By> holds for ALL x, y
         of that layout, not for sampled ones), plus A(0) = 0, additivity on unit-vector
         pairs, and 'nothing outside the addressed block is written'.
"""
import ctypes
import itertools

import numpy as np

ID = "C05"
VARIANT = "plain"
LEVEL_RULE = (
    "states = (operator pair x layout); each state builds the full matrices of the forward and backward routine from all "
    "unit vectors and compares them entrywise; outcome = rounded Frobenius norm/shape of A; distinct = distinct (op, shape, norm)"
)
ASSUMPTIONS = [
    "layouts bounded: natm<=3, lmax<=3, <=8 radial shells per atom, nalpha<=8; the code paths depend on size only through what natm/lmax/shell counts/angular sizes select",
    "tolerance 64*eps*||A||_max*sqrt(dim) (bit-exact transposes were measured for the dgemm-based pairs)",
    "thread counts 1 and 3 under libgomp here; schedules are C10's subject",
]

GARBAGE = 7.25


def _tol(A, n):
    return 64 * np.finfo(float).eps * max(1e-300, np.abs(A).max()) * np.sqrt(max(n, 1)) + 1e-300


def probe(A, B, nx, ny, ck, fails, name, chunk=None):
    """A: R^nx -> R^ny, B: R^ny -> R^nx (both take/return flat float arrays)."""
    MA = np.zeros((ny, nx))
    for j in range(nx):
        e = np.zeros(nx)
        e[j] = 1.0
        MA[:, j] = A(e)
    MB = np.zeros((nx, ny))
    for i in range(ny):
        e = np.zeros(ny)
        e[i] = 1.0
        MB[:, i] = B(e)
    evals = nx + ny
    if not (np.all(np.isfinite(MA)) and np.all(np.isfinite(MB))):
        fails.append({"key": "nonfinite;op=%s;%s" % (name, ck), "msg": "non-finite operator entries"})
        return evals, 0.0
    tol = _tol(MA, max(nx, ny))
    err = np.abs(MB - MA.T)
    if err.max() > tol:
        j, i = np.unravel_index(np.argmax(err), err.shape)
        fails.append({"key": "not-adjoint;op=%s;%s" % (name, ck),
                      "msg": "backward != forward^T for %s: |B[%d,%d] - A[%d,%d]| = %.3e (A=%.6g, B=%.6g), tol %.1e, dims %dx%d" % (
                          name, j, i, i, j, err.max(), MA[i, j], MB[j, i], tol, ny, nx),
                      "observed": float(MB[j, i]), "expected": float(MA[i, j])})
    # A(0) = 0 and additivity
    z = A(np.zeros(nx))
    evals += 1
    if np.abs(z).max() > 0:
        fails.append({"key": "nonzero-at-zero;op=%s;fwd;%s" % (name, ck), "msg": "forward routine of %s maps 0 to non-zero (uninitialised output?)" % name})
    z = B(np.zeros(ny))
    evals += 1
    if np.abs(z).max() > 0:
        fails.append({"key": "nonzero-at-zero;op=%s;bwd;%s" % (name, ck), "msg": "backward routine of %s maps 0 to non-zero (uninitialised output?)" % name})
    for (a, b) in [(0, nx - 1), (nx // 2, nx // 3), (1 % nx, (nx * 2) // 3)]:
        e = np.zeros(nx)
        e[a] += 1.0
        e[b] += 0.5
        r = A(e)
        evals += 1
        want = MA[:, a] + 0.5 * MA[:, b] if a != b else 1.5 * MA[:, a]
        if np.abs(r - want).max() > 4 * tol:
            fails.append({"key": "not-additive;op=%s;%s" % (name, ck), "msg": "forward routine of %s is not additive on e_%d + 0.5 e_%d: %.3e" % (name, a, b, np.abs(r - want).max())})
    return evals, float(np.abs(MA).max())


def probe_large(A, B, nx, ny, ck, fails, name):
    """Large layouts: every unit vector of the (small) input space through A, and B on a fixed family of probe vectors
    that cover the whole output space blockwise (indicators of consecutive index ranges of 16384 entries, the single
    entries at the range boundaries, a dense vector): B y_k must equal A^T y_k for every probe."""
    bounds = list(range(0, ny, 16384)) + [ny]
    probes = []
    for a, b in zip(bounds[:-1], bounds[1:]):
        y = np.zeros(ny)
        y[a:b] = 1.0 + 0.25 * np.cos(np.arange(a, b))
        probes.append(y)
    for i in sorted(set([0, ny - 1] + [b for b in bounds[1:-1]] + [b - 1 for b in bounds[1:-1]])):
        y = np.zeros(ny)
        y[i] = 1.0
        probes.append(y)
    probes.append(np.sin(0.37 * np.arange(ny)) + 0.1)
    P = np.array(probes)  # (K, ny)
    ATy = np.zeros((len(probes), nx))
    amax = 0.0
    for j in range(nx):
        e = np.zeros(nx)
        e[j] = 1.0
        col = A(e)
        amax = max(amax, float(np.abs(col).max()))
        ATy[:, j] = P @ col
    evals = nx
    worst = 0.0
    for k, y in enumerate(probes):
        By = B(y.copy())
        evals += 1
        scale = max(1.0, float(np.abs(ATy[k]).max()))
        err = float(np.abs(By - ATy[k]).max()) / scale
        worst = max(worst, err)
        if not err <= 1e-11:
            j = int(np.argmax(np.abs(By - ATy[k])))
            fails.append({"key": "not-adjoint-large;op=%s;%s" % (name, ck),
                          "msg": "backward != forward^T for %s on probe vector %d of %d (%d x %d operator): (B y)[%d] = %.9g, (A^T y)[%d] = %.9g" % (
                              name, k, len(probes), ny, nx, j, By[j], j, ATy[k][j])})
            break
    return evals, amax


# ----------------------------------------------------------------------------- layouts
LAYOUTS = {
    # name: (mol, atom_grid, lmax, prune)
    "He-6x26-l3": ("He", (6, 26), 3, None),
    "He-5x14-l2": ("He", (5, 14), 2, None),
    "He-8x50-l2": ("He", (8, 50), 2, None),
    "HF-5x26-l3": ("HF", (5, 26), 3, None),
    "H2O-4x26-l2": ("H2O", (4, 26), 2, None),
    "HF-8x50-l3-pruned": ("HF", (8, 50), 3, "nwchem"),
    "He-6x26-l1": ("He", (6, 26), 1, None),
    "HF-4x14-l2": ("HF", (4, 14), 2, None),
    "H2O-3x14-l2": ("H2O", (3, 14), 2, None),
    "He-4x14-l1": ("He", (4, 14), 1, None),
    # "large" layouts: thousands of points in one radial shell of one atom, so that any internal blocking / buffer
    # threshold of the interpolation routines that small layouts never reach is crossed (probed partially, see below)
    "He-3x5810-l1": ("He", (3, 5810), 1, None),
    "HF-2x3470-l1": ("HF", (2, 3470), 1, None),
}
# 7 radial spline nodes spread over 0 ... 16 Bohr (dparam 0.9): with the default spacing they would end at 0.01 Bohr and the
# interpolation operators would only ever see their out-of-range branch
TINY_NLDF = dict(aux_lambd=4.0, nrad=7, dparam=0.9, alpha_max=40.0, alpha_min=0.1)


def make_gen(layout, fam="VIJ", plan="gaussian", interp="onsite_direct", sl="npa", alpha_formula=None, nspin=1):
    from pyscf.dft import gen_grid

    from ciderpress.pyscf.gen_cider_grid import CiderGrids
    from ciderpress.pyscf.nldf_convolutions import PySCFNLDFInitializer

    from mc import fixtures as F

    molname, ag, lmax, prune = LAYOUTS[layout]
    mol = F.make_mol(molname)
    grids = CiderGrids(mol, lmax=lmax)
    grids.atom_grid = ag
    grids.prune = gen_grid.nwchem_prune if prune == "nwchem" else None
    F.build_grids(grids, lmax)
    st = F.feature_settings(fam, slmode=sl, normalize=False)
    kw = dict(TINY_NLDF, plan_type=plan, interpolator_type=interp, lmax=lmax)
    if alpha_formula:
        kw["alpha_formula"] = alpha_formula
    gen = PySCFNLDFInitializer(st.nldf_settings, **kw).initialize_nldf_generator(mol, grids.grids_indexer, nspin)
    gen.interpolator.set_coords(grids.coords)
    return mol, grids, gen


def set_threads(n):
    try:
        ctypes.CDLL("libgomp.so.1").omp_set_num_threads(int(n))
    except OSError:
        pass


# ----------------------------------------------------------------------------- operator wrappers
def op_angc(gen, offset, extra):
    ind = gen.grids_indexer
    na = 2 if extra else 3
    stride = na + offset + extra
    ng, nr, nlm = ind.ngrids, ind.nrad, ind.nlm
    state = {"outside": False}

    def A(x):
        gq = np.full((ng, stride), GARBAGE)
        gq[:, offset:offset + na] = x.reshape(ng, na)
        out = np.full((nr, nlm, na), GARBAGE)
        ind.reduce_angc_ylm_(out, gq, a2y=True, offset=offset)
        return out.ravel().copy()

    def B(y):
        gq = np.full((ng, stride), GARBAGE)
        ind.reduce_angc_ylm_(np.ascontiguousarray(y.reshape(nr, nlm, na)), gq, a2y=False, offset=offset)
        blk = gq[:, offset:offset + na].copy()
        gq[:, offset:offset + na] = GARBAGE
        if not np.all(gq == GARBAGE):
            state["outside"] = True
        return blk.ravel()

    return A, B, ng * na, nr * nlm * na, state


def op_rad2orb(gen, offset, extra, which="inp"):
    ind = gen.grids_indexer
    atco = gen.ccl.atco_inp if which == "inp" else gen.ccl.atco_out
    na = 2
    stride = na + offset + extra
    nr, nlm, nao = ind.nrad, ind.nlm, atco.nao
    state = {"outside": False}

    def A(x):
        th = np.ascontiguousarray(x.reshape(nr, nlm, na))
        p = np.full((nao, stride), GARBAGE)
        atco.convert_rad2orb_(th, p, ind, ind.rad_arr, rad2orb=True, offset=offset)
        blk = p[:, offset:offset + na].copy()
        p[:, offset:offset + na] = GARBAGE
        if not np.all(p == GARBAGE):
            state["outside"] = True
        return blk.ravel()

    def B(y):
        p = np.full((nao, stride), GARBAGE)
        p[:, offset:offset + na] = y.reshape(nao, na)
        th = np.full((nr, nlm, na), GARBAGE)
        atco.convert_rad2orb_(th, p, ind, ind.rad_arr, rad2orb=False, offset=offset)
        return th.ravel().copy()

    return A, B, nr * nlm * na, nao * na, state


def op_ccl(gen):
    ccl = gen.ccl
    if ccl.is_vk:
        nin, nout = ccl.atco_inp.nao, ccl.atco_out.nao
        nb = ccl.nalpha
    else:
        nin, nout = ccl.atco_inp.nao, ccl.atco_out.nao
        nb = ccl.nbeta
    na = ccl.nalpha

    def A(x):
        out = np.zeros((nout, nb))
        ccl.multiply_atc_integrals(np.ascontiguousarray(x.reshape(nin, na)), output=out, fwd=True)
        return out.ravel().copy()

    def B(y):
        out = np.zeros((nin, na))
        ccl.multiply_atc_integrals(np.ascontiguousarray(y.reshape(nout, nb)), output=out, fwd=False)
        return out.ravel().copy()

    return A, B, nin * na, nout * nb, {}


def op_interp(gen):
    it = gen.interpolator
    nao = it.atco.nao
    nin, nout = it.num_in, it.num_out
    ngpp = it.project_orb2grid(np.zeros((nao, nin))).shape[0]  # with / without padding rows, per back end

    def A(x):
        return it.project_orb2grid(np.ascontiguousarray(x.reshape(nao, nin))).ravel().copy()

    def B(y):
        return it.project_grid2orb(np.ascontiguousarray(y.reshape(ngpp, nout))).ravel().copy()

    return A, B, nao * nin, ngpp * nout, {}


def op_spline(gen):
    """conv2spline / spline2conv (incl. fill_l1_coeff fwd/bwd) of the interpolator."""
    it = gen.interpolator
    nao = it.atco.nao
    nin = it.num_in
    f0 = it.conv2spline(np.zeros((nao, nin)))
    shape = f0.shape

    def A(x):
        return it.conv2spline(np.ascontiguousarray(x.reshape(nao, nin))).ravel().copy()

    def B(y):
        out = np.zeros((nao, nin))
        it.spline2conv(np.ascontiguousarray(y.reshape(shape)), f_uq=out)
        return out.ravel().copy()

    return A, B, nao * nin, int(np.prod(shape)), {}


def op_interp_only(gen):
    """interpolate_fwd / interpolate_bwd (compute_mol_convs / compute_pot_convs + l+1 terms)."""
    it = gen.interpolator
    nao = it.atco.nao
    f0 = it.conv2spline(np.zeros((nao, it.num_in)))
    shape = f0.shape
    ng = it.all_coords.shape[0]
    nout = it.num_out

    def A(x):
        out = np.zeros((ng, nout))
        it.interpolate_fwd(np.ascontiguousarray(x.reshape(shape)), f_gq=out)
        return out.ravel().copy()

    def B(y):
        return it.interpolate_bwd(np.ascontiguousarray(y.reshape(ng, nout))).ravel().copy()

    return A, B, int(np.prod(shape)), ng * nout, {}


def op_trans(gen, i, order, conv="oi"):
    """conv: calling convention of (forward, backward): 'o' out of place, 'i' in place - all four pairs are enumerated"""
    plan = gen.plan
    na = plan.nalpha
    n = 5
    old = plan.coef_order
    state = {}

    def run(x, fwd, inplace):
        plan.coef_order = order
        try:
            a = np.ascontiguousarray(x.reshape((n, na) if order == "gq" else (na, n)))
            r = plan.get_transformed_interpolation_terms(a, i=i, fwd=fwd, inplace=inplace)
            return np.array(r, order="C").ravel().copy()
        finally:
            plan.coef_order = old

    return (lambda x: run(x, True, conv[0] == "i")), (lambda y: run(y, False, conv[1] == "i")), n * na, n * na, state


def op_composite(gen):
    ind = gen.grids_indexer
    ng = ind.ngrids
    na = gen.plan.nalpha
    nout = gen.interpolator.num_out
    ngpp = np.array(gen._perform_fwd_convolution(np.zeros((ng, na)))).shape[0]

    def A(x):
        return np.array(gen._perform_fwd_convolution(np.ascontiguousarray(x.reshape(ng, na)))).ravel().copy()

    def B(y):
        return np.array(gen._perform_bwd_convolution(np.ascontiguousarray(y.reshape(ngpp, nout)))).ravel().copy()

    return A, B, ng * na, ngpp * nout, {}


# ----------------------------------------------------------------------------- cases
def initial_cases(tier, seed):
    cases = []
    quick = tier == "quick"
    lay_small = ["He-6x26-l3", "He-5x14-l2", "HF-5x26-l3", "H2O-4x26-l2"]
    lay_all = list(LAYOUTS)
    # 1. angular <-> ylm and radial <-> orbital, all admissible offset/stride pairs
    for lay in (lay_small + ["HF-8x50-l3-pruned", "He-6x26-l1"]) if quick else lay_all:
        for off, extra in itertools.product((0, 1, 2), (0, 1)):
            for thr in (1, 3):
                if quick and thr == 3 and (off, extra) not in ((0, 0), (2, 1)):
                    continue
                cases.append({"op": "angc", "layout": lay, "offset": off, "extra": extra, "threads": thr, "seed": seed})
                for which in ("inp", "out"):
                    if quick and which == "out" and off == 1:
                        continue
                    cases.append({"op": "rad2orb", "layout": lay, "offset": off, "extra": extra, "which": which, "threads": thr, "seed": seed})
    # 2. convolution collections per family (j, i, ij, k contributions), plan types
    fams = ["VJ", "VI", "VIJ", "VK", "VIJ2", "VI0", "VJ2", "VIx"]
    for lay, fam in itertools.product(["He-5x14-l2", "HF-4x14-l2", "H2O-3x14-l2", "HF-5x26-l3"] if quick else lay_all, fams):
        for thr in (1, 3):
            if thr == 3 and (fam not in ("VIJ", "VK") or not lay.startswith("He")):
                continue
            cases.append({"op": "ccl", "layout": lay, "fam": fam, "threads": thr, "seed": seed})
    # 3. interpolators (both back ends, onsite direct/spline), spline projections
    for lay, fam, interp in itertools.product(["He-5x14-l2", "HF-4x14-l2"] + ([] if quick else ["H2O-3x14-l2", "He-4x14-l1", "He-6x26-l3"]),
                                              ["VJ", "VI", "VIJ", "VK", "VIJ2"], ["onsite_direct", "onsite_spline", "train_gen"]):
        for op in ("interp", "spline", "interp_only"):
            for thr in (1, 3):
                if thr == 3 and (fam != "VIJ" or not lay.startswith("He")):
                    continue
                cases.append({"op": op, "layout": lay, "fam": fam, "interp": interp, "threads": thr, "seed": seed})
    # 3b. the same operators on large layouts (partial probing)
    for lay in ("He-3x5810-l1", "HF-2x3470-l1"):
        for interp in ("onsite_direct", "onsite_spline", "train_gen"):
            for op in ("interp", "interp_only"):  # operators whose INPUT space is small (orbital / spline space)
                if quick and ((lay, interp) not in (("He-3x5810-l1", "onsite_direct"), ("HF-2x3470-l1", "onsite_spline"), ("He-3x5810-l1", "train_gen")) or op != "interp"):
                    continue
                cases.append({"op": op, "layout": lay, "fam": "VIJ", "interp": interp, "threads": 1, "large": True, "seed": seed})
    # 4. interpolation-coefficient transforms (pure linear algebra): both plans, both orders, every i
    for plan, order, fam in itertools.product(["gaussian", "spline"], ["gq", "qg"], ["VJ", "VIJ", "VK"]):
        for i in (-1, 0, 1):
            for conv in ("oi", "oo", "io", "ii"):
                cases.append({"op": "trans", "layout": "He-5x14-l2", "fam": fam, "plan": plan, "order": order, "i": i, "conv": conv, "threads": 1, "seed": seed})
    # 5. composite forward / backward convolution
    for lay, fam, plan, interp in itertools.product(["He-5x14-l2"] + ([] if quick else ["HF-4x14-l2", "He-6x26-l3"]),
                                                    ["VJ", "VI", "VIJ", "VK"], ["gaussian", "spline"],
                                                    ["onsite_direct"] if quick else ["onsite_direct", "onsite_spline", "train_gen"]):
        cases.append({"op": "composite", "layout": lay, "fam": fam, "plan": plan, "interp": interp, "threads": 1, "seed": seed})
    if quick:
        cases.append({"op": "composite", "layout": "HF-4x14-l2", "fam": "VIJ", "plan": "gaussian", "interp": "onsite_spline", "threads": 1, "seed": seed})
        cases.append({"op": "composite", "layout": "He-5x14-l2", "fam": "VIJ", "plan": "spline", "interp": "onsite_direct", "threads": 3, "seed": seed})
        cases.append({"op": "composite", "layout": "He-5x14-l2", "fam": "VIJ", "plan": "gaussian", "interp": "train_gen", "threads": 1, "seed": seed})
    # 6. SDMX contractions
    for mol, fam in itertools.product(["He", "HF", "H2O", "LiHgc", "Hed", "LiHgcp"] if not quick else ["HF", "H2O", "LiHgc", "Hed", "LiHgcp"], ["SDMX", "SDMX1", "SDMXG1", "SDMXFull"]):
        for thr in (1, 3):
            if quick and thr == 3 and fam != "SDMXG1":
                continue
            cases.append({"op": "sdmx_ao2bas", "mol": mol, "fam": fam, "threads": thr, "seed": seed})
            cases.append({"op": "sdmx_shl2alpha", "mol": mol, "fam": fam, "threads": thr, "seed": seed})
    # point counts relative to the team: fewer points than threads, a count whose per-thread quotient is a multiple of 8 with
    # a remainder (25 = 3 * 8 + 1), one more than a multiple of the team
    for mol, fam, npts in itertools.product(["HF"] if quick else ["HF", "LiHgc"], ["SDMXG1", "SDMXFull"] if quick else ["SDMX", "SDMX1", "SDMXG1", "SDMXFull"], [2, 25, 10, 17]):
        for op in ("sdmx_ao2bas", "sdmx_shl2alpha"):
            cases.append({"op": op, "mol": mol, "fam": fam, "threads": 2 if npts == 17 else 3, "npts": npts, "seed": seed})
    return cases


def case_label(c):
    return ";".join("%s=%s" % (k, c[k]) for k in c if k != "seed")


def _sdmx_gen(case):
    from ciderpress.pyscf.sdmx import PySCFSDMXInitializer

    from mc import fixtures as F

    mol = F.make_mol(case["mol"])
    st = F.feature_settings(case["fam"], normalize=False)
    gen = PySCFSDMXInitializer(st.sdmx_settings, lowmem=False).initialize_sdmx_generator(mol, 1)
    rng = np.random.RandomState(12)
    n = case.get("npts", 9)
    coords = np.ascontiguousarray(mol.atom_coords()[rng.randint(0, mol.natm, n)] + rng.randn(n, 3) * 0.9)
    return mol, gen, coords


def run_sdmx(case):
    from ciderpress.pyscf.sdmx import _get_nrf

    mol, gen, coords = _sdmx_gen(case)
    ng = coords.shape[0]
    nao = mol.nao_nr()
    nrf = _get_nrf(mol)
    d = gen.deriv
    nb = 1 + 6 * d
    ck = "mol=%s;fam=%s;threads=%d%s" % (case["mol"], case["fam"], case["threads"], ";npts=%d" % case["npts"] if "npts" in case else "")
    fails = []
    shls = (0, mol.nbas)
    ao_loc = mol.ao_loc_nr()
    fcoords = np.asfortranarray(coords)
    if case["op"] == "sdmx_ao2bas":
        def A(x):
            c0 = np.ascontiguousarray(x.reshape(nao, ng)).T  # (ngrids, nao), F-ordered like _dot_ao_dm's output
            return np.array(gen._contract_ao_to_bas(mol, c0, shls, ao_loc, fcoords)).ravel().copy()

        def B(y):
            b0 = np.ascontiguousarray(y.reshape(nb, nrf, ng))
            r = gen._contract_ao_to_bas_bwd(mol, b0, shls, ao_loc, fcoords)  # (ngrids, nao) view of (nao, ngrids)
            return np.ascontiguousarray(r.T).ravel().copy()

        ev, nrm = probe(A, B, nao * ng, nb * nrf * ng, ck, fails, "sdmx_ao2bas")
    else:
        if d == 0:
            return {"fail": [], "evals": 0, "outcome": "n/a (no l=1 terms)"}
        cao = gen.get_cao(mol, fcoords)
        na = gen.plan.nalpha

        def A(x):
            b0 = np.ascontiguousarray(x.reshape(nb, nrf, ng))
            tmp = np.zeros((4, na, ng))
            gen_lib().contract_shl_to_alpha_l1(ctypes.c_int(ng), ctypes.c_int(na), ctypes.c_int(cao.shape[-1]),
                                               tmp.ctypes.data_as(ctypes.c_void_p), b0.ctypes.data_as(ctypes.c_void_p),
                                               cao.ctypes.data_as(ctypes.c_void_p))
            return tmp.ravel().copy()

        def B(y):
            tmp2 = np.ascontiguousarray(y.reshape(4, na, ng))
            b0 = np.zeros((nb, nrf, ng))  # memory layout (component, shell, grid) in both directions
            gen_lib().contract_shl_to_alpha_l1_bwd(ctypes.c_int(ng), ctypes.c_int(na), ctypes.c_int(cao.shape[-1]),
                                                   tmp2.ctypes.data_as(ctypes.c_void_p), b0.ctypes.data_as(ctypes.c_void_p),
                                                   cao.ctypes.data_as(ctypes.c_void_p))
            return b0.ravel().copy()

        ev, nrm = probe(A, B, nb * nrf * ng, 4 * na * ng, ck, fails, "sdmx_shl2alpha")
    return {"fail": fails, "evals": ev, "outcome": [case["op"], float("%.8e" % nrm)]}


def gen_lib():
    from ciderpress.pyscf import sdmx

    return sdmx.libcider


def run_case(case):
    if case.get("threads", 1) != 1 and "npts" not in case and not str(case.get("layout", case.get("mol", ""))).startswith("He"):
        case = dict(case, threads=2)
    set_threads(case.get("threads", 1))
    try:
        return _run_case(case)
    finally:
        set_threads(1)


def _run_case(case):
    op = case["op"]
    if op.startswith("sdmx"):
        return run_sdmx(case)
    fails = []
    ck = ";".join("%s=%s" % (k, case[k]) for k in case if k not in ("seed", "op"))
    fam = case.get("fam", "VIJ")
    mol, grids, gen = make_gen(case["layout"], fam=fam, plan=case.get("plan", "gaussian"),
                               interp=case.get("interp", "onsite_direct"))
    if op == "angc":
        A, B, nx, ny, st = op_angc(gen, case["offset"], case["extra"])
    elif op == "rad2orb":
        A, B, nx, ny, st = op_rad2orb(gen, case["offset"], case["extra"], case["which"])
    elif op == "ccl":
        A, B, nx, ny, st = op_ccl(gen)
    elif op == "interp":
        A, B, nx, ny, st = op_interp(gen)
    elif op == "spline":
        A, B, nx, ny, st = op_spline(gen)
    elif op == "interp_only":
        A, B, nx, ny, st = op_interp_only(gen)
    elif op == "trans":
        A, B, nx, ny, st = op_trans(gen, case["i"], case["order"], case.get("conv", "oi"))
    elif op == "composite":
        A, B, nx, ny, st = op_composite(gen)
    else:
        raise ValueError(op)
    if case.get("large"):
        ev, nrm = probe_large(A, B, nx, ny, ck, fails, op)
    else:
        ev, nrm = probe(A, B, nx, ny, ck, fails, op)
    if st.get("outside"):
        fails.append({"key": "writes-outside-block;op=%s;%s" % (op, ck), "msg": "%s wrote outside the [offset, offset+nalpha) block of its output" % op})
    return {"fail": fails, "evals": ev, "outcome": [op, nx, ny, float("%.8e" % nrm)], "info": {"nx": nx, "ny": ny}}
