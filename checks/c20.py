"""C20 - the FFT plan wrapper computes the discrete Fourier transform it advertises.
Engine E1 + E4 (shim/vfftw.c, an executable model of the FFTW advanced interface with
address checking), DESIGN.md section 5/C20, 3.5 and appendix B.

State  = a plan (dims tuple, fwd, r2c, inplace, batch_first, ntransform) built through the real
         FFTWrapper on libfft_wrapper compiled from the working tree against vfftw.
Oracle = for plans with <= 64 input elements EVERY unit vector of the input space (for
         complex-to-real plans: the images of all real unit vectors, a basis of the admissible
         half spectra) and a dense vector; otherwise a dense vector plus the unit vectors of the
         first and last axis.  Output == numpy.fft (fftn / ifftn*N / rfftn / irfftn*N) over the
         non-batch axes; advertised shapes; forward o backward == N * identity; wrong shape ->
         ValueError; equivalent representations of the same input (Fortran order, real dtype for
         a complex plan, complex64) give the same transform; vfftw's address checker and red
         zones silent.  vfftw itself is validated against numpy on explicit-embed plans.
"""
import ctypes
import itertools

import numpy as np

ID = "C20"
VARIANT = "plain"
LEVEL_RULE = (
    "states = plans (dims x fwd x r2c x inplace x batch_first x ntransform); every plan is probed with a complete basis "
    "of inputs when it has <= 64 input elements; outcome = (plan, rounded output checksum); distinct = distinct plans with "
    "distinct checksums; traces_validated_against_impl additionally counts the vfftw-vs-numpy validations"
)
ASSUMPTIONS = [
    "FFTW is replaced by vfftw, an executable model of the documented semantics of fftw_plan_many_dft{,_r2c,_c2r} (the real FFTW binary is not in the image); vfftw is validated against numpy.fft on the same plan alphabet",
    "dimension sizes 1..5 (even/odd last dimension and rank 1..4 covered); the wrapper's layout arithmetic depends on parity of the last dimension and on rank only",
    "MKL back end not covered (absent)",
]


def _dims_alphabet(tier):
    vals = [1, 2, 3, 4] if tier == "quick" else [1, 2, 3, 4, 5]
    out = []
    for rank in (1, 2, 3):
        out += list(itertools.product(vals, repeat=rank))
    out += [(2, 3, 2, 3), (1, 2, 3, 4), (3, 2, 2, 5), (2, 2, 2, 2)]
    return out


def initial_cases(tier, seed):
    cases = []
    for dims in _dims_alphabet(tier):
        for fwd, r2c, inplace in itertools.product((True, False), (False, True), (False, True)):
            for nt, bf in ((1, True), (1, False), (2, True), (2, False), (3, True), (3, False)):
                if tier == "quick" and nt == 2 and len(dims) == 3:
                    continue
                cases.append({"kind": "plan", "dims": list(dims), "fwd": fwd, "r2c": r2c, "inplace": inplace,
                              "nt": nt, "bf": bf, "seed": seed})
    # the wrapper's own copy loops are OpenMP work-sharing loops: the same plans with teams that do not divide the sizes
    # (static partitions, disjoint writes: the team size is a configuration dimension here, not a schedule)
    for dims in _dims_alphabet(tier):
        for fwd, r2c, inplace in itertools.product((True, False), (False, True), (False, True)):
            for nt, bf in ((1, True), (2, False), (3, True)):
                for team in ((2, 3, 4, 5, 7, 16) if tier != "quick" else (2, 3, 7)):
                    if tier == "quick" and (len(dims) == 3 or (team == 7 and nt == 2) or (team == 2 and nt == 3)):
                        continue
                    cases.append({"kind": "plan", "dims": list(dims), "fwd": fwd, "r2c": r2c, "inplace": inplace,
                                  "nt": nt, "bf": bf, "team": team, "seed": seed})
    for rank in (1, 2, 3):
        cases.append({"kind": "vfftw", "rank": rank, "seed": seed})
    return cases


_GOMP = []


def _set_team(n):
    """OpenMP team size of the runtime the wrapper library is linked against (the process default is 1, mc.boot)."""
    if not _GOMP:
        _GOMP.append(ctypes.CDLL("libgomp.so.1"))
        _GOMP[0].omp_get_max_threads.restype = ctypes.c_int
    _GOMP[0].omp_set_num_threads(ctypes.c_int(int(n)))
    return _GOMP[0].omp_get_max_threads()


def case_label(c):
    return ";".join("%s=%s" % (k, c[k]) for k in c if k != "seed")


def _axes(dims, bf):
    r = len(dims)
    return tuple(range(1, r + 1)) if bf else tuple(range(r))


def _expected(x, dims, fwd, r2c, bf):
    ax = _axes(dims, bf)
    n = int(np.prod(dims))
    if not r2c:
        return np.fft.fftn(x, axes=ax) if fwd else np.fft.ifftn(x, axes=ax) * n
    if fwd:
        return np.fft.rfftn(x, axes=ax)
    return np.fft.irfftn(x, s=dims, axes=ax) * n


def _vfftw():
    from ciderpress.lib import fft_plan

    L = fft_plan.libfft
    L.vfftw_error_count.restype = ctypes.c_long
    L.vfftw_checked_addresses.restype = ctypes.c_long
    L.vfftw_unregistered_bases.restype = ctypes.c_long
    L.vfftw_error_message.restype = ctypes.c_char_p
    return L


def run_plan(case):
    from ciderpress.lib.fft_plan import FFTWrapper

    L = _vfftw()
    L.vfftw_reset_errors()
    dims = tuple(case["dims"])
    fwd, r2c, inplace, nt, bf = case["fwd"], case["r2c"], case["inplace"], case["nt"], case["bf"]
    ck = "fwd=%s;r2c=%s;inplace=%s;bf=%s;nt=%d;rank=%d;lastdim=%s%s" % (fwd, r2c, inplace, bf, nt, len(dims), "odd" if dims[-1] % 2 else "even", ";team=%d" % case["team"] if case.get("team", 1) != 1 else "")
    full = ck + ";dims=%s" % (dims,)
    fails = []
    w = FFTWrapper(dims, ntransform=nt, fwd=fwd, r2c=r2c, inplace=inplace, batch_first=bf)
    rshape = ((nt,) + dims) if bf else (dims + (nt,))
    kdims = dims[:-1] + (dims[-1] // 2 + 1,) if r2c else dims
    kshape = ((nt,) + kdims) if bf else (kdims + (nt,))
    want_in, want_out = (rshape, kshape) if fwd else (kshape, rshape)
    if tuple(w.input_shape) != want_in or tuple(w.output_shape) != want_out:
        fails.append({"key": "shape;" + ck, "msg": "advertised shapes %s -> %s, expected %s -> %s (%s)" % (w.input_shape, w.output_shape, want_in, want_out, full)})
        return {"fail": fails, "evals": 1, "outcome": "shape"}
    nin = int(np.prod(want_in))
    real_in = r2c and fwd
    c2r = r2c and not fwd
    rng = np.random.RandomState(100 + case["seed"])
    inputs = []
    if c2r:
        # admissible half spectra: images of real vectors
        nreal = int(np.prod(rshape))
        basis = range(nreal) if nreal <= 64 else sorted(set(list(range(min(8, nreal))) + list(range(max(0, nreal - 8), nreal))))
        for j in basis:
            e = np.zeros(nreal)
            e[j] = 1.0
            inputs.append(("unit%d" % j, np.ascontiguousarray(np.fft.rfftn(e.reshape(rshape), axes=_axes(dims, bf)))))
        inputs.append(("dense", np.ascontiguousarray(np.fft.rfftn(rng.randn(*rshape), axes=_axes(dims, bf)))))
    else:
        comps = [1.0] if real_in else [1.0, 1j]
        basis = range(nin) if nin * len(comps) <= 64 else sorted(set(list(range(min(6, nin))) + list(range(max(0, nin - 6), nin))))
        for j in basis:
            for c in comps:
                e = np.zeros(nin, dtype=np.float64 if real_in else np.complex128)
                e[j] = c
                inputs.append(("unit%d%s" % (j, "" if c == 1.0 else "i"), e.reshape(want_in)))
        d = rng.randn(*want_in) if real_in else rng.randn(*want_in) + 1j * rng.randn(*want_in)
        inputs.append(("dense", d))
    evals = 0
    tol_scale = 64 * np.finfo(float).eps * max(1, int(np.prod(dims)))
    sig = 0.0
    for name, x in inputs:
        exp = _expected(x, dims, fwd, r2c, bf)
        got = w.call(np.ascontiguousarray(x))
        evals += 1
        if got.shape != want_out:
            fails.append({"key": "outshape;" + ck, "msg": "output shape %s != advertised %s (%s)" % (got.shape, want_out, full)})
            break
        err = np.abs(got - exp).max() if got.size else 0.0
        tol = tol_scale * (1 + np.abs(exp).max())
        if not err <= tol:
            fails.append({"key": "wrong-dft;" + ck, "msg": "output differs from numpy.fft by %.3e (tol %.1e) for input %s, %s" % (err, tol, name, full)})
            break
        sig += float(np.abs(got).sum())
    # equivalent representations of the dense input
    name, x = inputs[-1]
    exp = _expected(x, dims, fwd, r2c, bf)
    reps = [("fortran-order", np.asfortranarray(x))]
    if not real_in:
        reps.append(("complex64-dtype", x.astype(np.complex64)))
        if not c2r:
            xr = np.ascontiguousarray(x.real)
            reps.append(("real-dtype-for-complex-plan", xr))
    else:
        reps.append(("float32-dtype", x.astype(np.float32)))
        reps.append(("complex-dtype-with-zero-imag", x.astype(np.complex128)))
    # right-shaped inputs that are neither C- nor Fortran-contiguous: a crop of a padded buffer, an axis-permuted view,
    # the real part of a complex array
    pad = np.zeros(x.shape[:-1] + (x.shape[-1] + 3,), dtype=x.dtype)
    pad[..., : x.shape[-1]] = x
    pad[..., x.shape[-1]:] = 7.0
    reps.append(("strided-crop", pad[..., : x.shape[-1]]))
    if x.ndim >= 2:
        perm = tuple(range(1, x.ndim)) + (0,)
        inv = tuple(np.argsort(perm))
        reps.append(("permuted-axes-view", np.ascontiguousarray(x.transpose(perm)).transpose(inv)))
    if real_in:
        reps.append(("real-part-of-complex", (x + 1j * (x[::-1] if x.ndim else x)).real))
    for rname, xr in reps:
        if xr.size <= 1:
            continue
        try:
            got = w.call(xr)
            evals += 1
        except (ValueError, TypeError):
            continue  # rejecting a representation is acceptable
        e2 = _expected(xr.astype(np.complex128) if not real_in else xr.real.astype(np.float64), dims, fwd, r2c, bf)
        tol = 1e-5 * (1 + np.abs(e2).max()) if "64" in rname and "complex64" in rname or "float32" in rname else tol_scale * (1 + np.abs(e2).max())
        err = np.abs(got - e2).max()
        if not err <= tol:
            fails.append({"key": "representation;%s;%s" % (rname, "r2c" if r2c else "c2c"),
                          "msg": "input given as %s (same shape) is accepted but transformed wrongly: error %.3e (%s)" % (rname, err, full)})
    # call history on ONE plan: an earlier result must survive later calls, the caller's input must survive the call, and a
    # call whose input is (a view of) an earlier output of the same plan must still transform that input
    xa = np.ascontiguousarray(inputs[-1][1])
    xb = np.ascontiguousarray(inputs[0][1] if len(inputs) > 1 else 0.5 * xa)
    xa_keep = xa.copy()
    ya = w.call(xa)
    ya_keep = np.array(ya, copy=True)
    yb = w.call(xb)
    evals += 2
    if not np.array_equal(xa, xa_keep):
        fails.append({"key": "input-modified;" + ck, "msg": "call() changed the caller's input array (%s)" % full})
    if not np.array_equal(ya, ya_keep, equal_nan=True):
        fails.append({"key": "earlier-output-overwritten;" + ck, "msg": "the array returned by the first call changed during the second call on the same plan (max change %.3e; shares memory with the second result: %s) (%s)" % (
            np.abs(ya - ya_keep).max(), np.shares_memory(ya, yb), full)})
    eb = _expected(xb, dims, fwd, r2c, bf)
    if np.abs(yb - eb).max() > tol_scale * (1 + np.abs(eb).max()):
        fails.append({"key": "second-call-wrong;" + ck, "msg": "second call on the same plan differs from numpy.fft by %.3e (%s)" % (np.abs(yb - eb).max(), full)})
    if want_in == want_out and not real_in and not c2r:
        yc = w.call(ya)  # previous output as input
        evals += 1
        ec = _expected(ya_keep, dims, fwd, r2c, bf)
        if np.abs(yc - ec).max() > tol_scale * max(1, int(np.prod(dims))) * (1 + np.abs(ec).max()):
            fails.append({"key": "output-as-input;" + ck, "msg": "feeding an earlier output back into the same plan gives a wrong transform: %.3e (%s)" % (np.abs(yc - ec).max(), full)})
    # wrong shape must raise
    for bad in (want_in + (1,), want_in[:-1] + (want_in[-1] + 1,), want_in[::-1] if len(set(want_in)) > 1 else want_in[:-1]):
        if tuple(bad) == tuple(want_in):
            continue
        try:
            w.call(np.zeros(bad, dtype=np.float64 if real_in else np.complex128))
            fails.append({"key": "badshape-accepted;" + ck, "msg": "input of shape %s accepted by a plan expecting %s" % (bad, want_in)})
        except ValueError:
            pass
        evals += 1
    # the dims argument itself given as a strided int32 view (every second entry of a longer array)
    if len(dims) >= 2:
        dv = np.zeros(2 * len(dims), dtype=np.int32)
        dv[::2] = dims
        dv[1::2] = 3
        try:
            w3 = FFTWrapper(dv[::2], ntransform=nt, fwd=fwd, r2c=r2c, inplace=inplace, batch_first=bf)
            y3 = w3.call(np.ascontiguousarray(inputs[-1][1]))
            e3 = _expected(inputs[-1][1], dims, fwd, r2c, bf)
            evals += 1
            if y3.shape != e3.shape or np.abs(y3 - e3).max() > tol_scale * (1 + np.abs(e3).max()):
                fails.append({"key": "strided-dims;" + ck, "msg": "a plan built from dims given as a strided int32 view computes a different transform (%s)" % full})
            del w3
        except (ValueError, TypeError):
            pass
    # forward o backward == N * identity
    w2 = FFTWrapper(dims, ntransform=nt, fwd=not fwd, r2c=r2c, inplace=inplace, batch_first=bf)
    name, x = inputs[-1]
    y = w.call(np.ascontiguousarray(x))
    back = w2.call(np.ascontiguousarray(y))
    evals += 2
    n = int(np.prod(dims))
    if np.abs(back - n * x).max() > tol_scale * n * (1 + np.abs(x).max()):
        fails.append({"key": "roundtrip;" + ck, "msg": "forward followed by backward != N * input: %.3e (%s)" % (np.abs(back - n * x).max(), full)})
    del w, w2
    nerr = L.vfftw_error_count()
    if nerr:
        fails.append({"key": "vfftw-address;" + ck, "msg": "FFTW model reports %d addressing errors, first: %s (%s)" % (nerr, L.vfftw_error_message().decode(), full)})
    return {"fail": fails, "evals": evals, "outcome": [list(dims), fwd, r2c, inplace, bf, nt, float("%.6e" % sig)],
            "info": {"checked_addresses": int(L.vfftw_checked_addresses()), "unregistered_bases": int(L.vfftw_unregistered_bases()), "inputs": len(inputs)}}


def run_vfftw(case):
    """Validate the FFTW model itself: explicit embeds/strides/dists vs numpy, through ctypes."""
    L = _vfftw()
    L.fftw_malloc.restype = ctypes.c_void_p
    L.fftw_malloc.argtypes = [ctypes.c_size_t]
    L.fftw_free.argtypes = [ctypes.c_void_p]
    for f in ("fftw_plan_many_dft", "fftw_plan_many_dft_r2c", "fftw_plan_many_dft_c2r"):
        getattr(L, f).restype = ctypes.c_void_p
    L.fftw_execute.argtypes = [ctypes.c_void_p]
    L.fftw_destroy_plan.argtypes = [ctypes.c_void_p]
    rank = case["rank"]
    fails = []
    n_valid = 0
    rng = np.random.RandomState(7)
    for dims in itertools.product((1, 2, 3, 4), repeat=rank):
        for howmany, pad, stride in ((1, 0, 1), (2, 1, 1), (2, 0, 2), (3, 2, 3)):
            n = (ctypes.c_int * rank)(*dims)
            emb_dims = tuple(d + pad for d in dims)
            emb = (ctypes.c_int * rank)(*emb_dims)
            ntot = int(np.prod(emb_dims))
            dist = ntot * stride if stride == 1 else 1
            if stride != 1 and stride != howmany:
                continue
            size = (ntot * stride * howmany + 4)
            for sign in (-1, 1):
                L.vfftw_reset_errors()
                pin = L.fftw_malloc(16 * size)
                pout = L.fftw_malloc(16 * size)
                a = np.ctypeslib.as_array(ctypes.cast(pin, ctypes.POINTER(ctypes.c_double)), shape=(2 * size,)).view(np.complex128)
                b = np.ctypeslib.as_array(ctypes.cast(pout, ctypes.POINTER(ctypes.c_double)), shape=(2 * size,)).view(np.complex128)
                a[:] = 0
                b[:] = 0
                xs = []
                for t in range(howmany):
                    x = rng.randn(*dims) + 1j * rng.randn(*dims)
                    xs.append(x)
                    for idx in np.ndindex(*dims):
                        off = t * dist + int(np.ravel_multi_index(idx, emb_dims)) * stride
                        a[off] = x[idx]
                plan = L.fftw_plan_many_dft(ctypes.c_int(rank), n, ctypes.c_int(howmany), ctypes.c_void_p(pin), emb, ctypes.c_int(stride),
                                            ctypes.c_int(dist), ctypes.c_void_p(pout), emb, ctypes.c_int(stride), ctypes.c_int(dist),
                                            ctypes.c_int(sign), ctypes.c_uint(64))
                L.fftw_execute(plan)
                for t in range(howmany):
                    exp = np.fft.fftn(xs[t]) if sign == -1 else np.fft.ifftn(xs[t]) * int(np.prod(dims))
                    for idx in np.ndindex(*dims):
                        off = t * dist + int(np.ravel_multi_index(idx, emb_dims)) * stride
                        if abs(b[off] - exp[idx]) > 1e-12 * (1 + np.abs(exp).max()):
                            fails.append({"key": "vfftw-model-wrong;c2c", "confirm": False, "msg": "FFTW model disagrees with numpy for dims %s howmany %d pad %d stride %d" % (dims, howmany, pad, stride)})
                            break
                n_valid += 1
                L.fftw_destroy_plan(plan)
                L.fftw_free(pin)
                L.fftw_free(pout)
                if L.vfftw_error_count():
                    fails.append({"key": "vfftw-model-selfcheck", "confirm": False, "msg": "address checker fired on a valid explicit-embed plan: %s" % L.vfftw_error_message().decode()})
            # real transforms, NULL embeds, out of place and in place
            for inplace in (False, True):
                L.vfftw_reset_errors()
                hd = dims[:-1] + (dims[-1] // 2 + 1,)
                rl = dims[:-1] + (2 * (dims[-1] // 2 + 1),) if inplace else dims
                rsz, csz = int(np.prod(rl)), int(np.prod(hd))
                pin = L.fftw_malloc(8 * max(rsz, 2 * csz) * howmany + 64)
                pout = pin if inplace else L.fftw_malloc(16 * csz * howmany + 64)
                ra = np.ctypeslib.as_array(ctypes.cast(pin, ctypes.POINTER(ctypes.c_double)), shape=(max(rsz, 2 * csz) * howmany,))
                ca = np.ctypeslib.as_array(ctypes.cast(pout, ctypes.POINTER(ctypes.c_double)), shape=(2 * csz * howmany,)).view(np.complex128)
                xs = [rng.randn(*dims) for _ in range(howmany)]
                rdist = rsz
                for t in range(howmany):
                    for idx in np.ndindex(*dims):
                        ra[t * rdist + int(np.ravel_multi_index(idx, rl))] = xs[t][idx]
                plan = L.fftw_plan_many_dft_r2c(ctypes.c_int(rank), n, ctypes.c_int(howmany), ctypes.c_void_p(pin), None, ctypes.c_int(1),
                                                ctypes.c_int(rdist), ctypes.c_void_p(pout), None, ctypes.c_int(1), ctypes.c_int(csz), ctypes.c_uint(64))
                L.fftw_execute(plan)
                for t in range(howmany):
                    exp = np.fft.rfftn(xs[t])
                    got = ca[t * csz:(t + 1) * csz].reshape(hd)
                    if np.abs(got - exp).max() > 1e-12 * (1 + np.abs(exp).max()):
                        fails.append({"key": "vfftw-model-wrong;r2c", "confirm": False, "msg": "FFTW model r2c disagrees with numpy for dims %s inplace %s" % (dims, inplace)})
                L.fftw_destroy_plan(plan)
                # and back
                plan = L.fftw_plan_many_dft_c2r(ctypes.c_int(rank), n, ctypes.c_int(howmany), ctypes.c_void_p(pout), None, ctypes.c_int(1),
                                                ctypes.c_int(csz), ctypes.c_void_p(pin), None, ctypes.c_int(1), ctypes.c_int(rdist), ctypes.c_uint(64))
                L.fftw_execute(plan)
                for t in range(howmany):
                    for idx in np.ndindex(*dims):
                        v = ra[t * rdist + int(np.ravel_multi_index(idx, rl))]
                        if abs(v - xs[t][idx] * int(np.prod(dims))) > 1e-11 * (1 + np.abs(xs[t]).max()) * int(np.prod(dims)):
                            fails.append({"key": "vfftw-model-wrong;c2r", "confirm": False, "msg": "FFTW model c2r(r2c(x)) != N x for dims %s inplace %s" % (dims, inplace)})
                            break
                L.fftw_destroy_plan(plan)
                n_valid += 2
                L.fftw_free(pin)
                if not inplace:
                    L.fftw_free(pout)
                if L.vfftw_error_count():
                    fails.append({"key": "vfftw-model-selfcheck;real", "confirm": False, "msg": "address checker fired on a valid real plan: %s" % L.vfftw_error_message().decode()})
    # the address checker must fire on an undersized buffer (detection, not just silence)
    L.vfftw_reset_errors()
    n = (ctypes.c_int * 1)(8)
    pin = L.fftw_malloc(16 * 4)
    pout = L.fftw_malloc(16 * 8)
    plan = L.fftw_plan_many_dft(ctypes.c_int(1), n, ctypes.c_int(1), ctypes.c_void_p(pin), None, ctypes.c_int(1), ctypes.c_int(8),
                                ctypes.c_void_p(pout), None, ctypes.c_int(1), ctypes.c_int(8), ctypes.c_int(-1), ctypes.c_uint(64))
    L.fftw_execute(plan)
    if L.vfftw_error_count() == 0:
        fails.append({"key": "vfftw-model-checker-blind", "confirm": False, "msg": "address checker did not fire on an undersized input buffer"})
    L.fftw_destroy_plan(plan)
    L.fftw_free(pin)
    L.fftw_free(pout)
    L.vfftw_reset_errors()
    return {"fail": fails, "evals": n_valid, "outcome": ["vfftw", rank, n_valid], "model_validations": n_valid}


def run_case(case):
    if case["kind"] == "plan":
        team = case.get("team", 1)
        try:
            if _set_team(team) != team:
                return {"fail": [{"key": "harness-team-size", "msg": "could not set the OpenMP team size to %d" % team}], "evals": 0}
            return run_plan(case)
        finally:
            _set_team(1)
    return run_vfftw(case)


def finish(tier, seed, cases, results):
    nval = sum(r.get("model_validations", 0) for r in results)
    nplan = sum(1 for c in cases if c["kind"] == "plan")
    checked = sum((r.get("info") or {}).get("checked_addresses", 0) for r in results)
    unreg = sum((r.get("info") or {}).get("unregistered_bases", 0) for r in results)
    return {"coverage": {"traces_validated_against_impl": nplan + nval, "fftw_model_validations_vs_numpy": nval,
                         "addresses_checked_by_model": checked, "executions_on_unregistered_buffers": unreg}}
