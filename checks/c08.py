"""C08 - vanishing or extreme densities never give non-finite or spurious contributions.
Engine E1, DESIGN.md section 5/C08.

(i)  pointwise: CiderNumInt.eval_xc_cider is pointwise in the grid index, so ONE call on an array
     that is the full product of per-point alphabets (density straddling every cutoff and
     regulariser, zero / tiny / von-Weizsaecker-consistent / huge gradients, tau from tau_W to
     1e10 tau_ueg, nonlocal slots in {0, UEG value, huge}) decides all of them; repeated for every
     configuration of the lattice (semilocal mode x baseline x evaluator x spin mode x nspin x
     family x normalisation x semilocal mix).  Oracle: every output finite; with xmix = 1 and no
     semilocal part, points well below the cutoff have EXACTLY zero energy density and potentials.
(ii) generators: NLDF and SDMX generators on real grids with synthetic non-negative densities that
     contain exact zeros, denormals and steps across rhocut.
(iii) end to end: nr_rks / nr_uks on atoms with grids reaching hundreds of Bohr (density
     underflows to exact 0).
An accepted rejection (RuntimeError 'NLDF exponent is too large') is not a violation.
"""
import itertools

import numpy as np

from mc.space import Space, tag

ID = "C08"
VARIANT = "plain"
LEVEL_RULE = (
    "states = configuration points (full products of semilocal mode x baseline x spin mode x nspin and family x evaluator x "
    "normalisation, deviations<=1 otherwise); every state evaluates the full product of the per-point alphabets (~2000 "
    "points) in one call; outcome = rounded checksum of the finite outputs"
)
ASSUMPTIONS = [
    "admissible inputs only: density >= 0, tau >= tau_W(1 - 1e-8), no NaN inputs",
    "the exact-zero clause is asserted for points whose total density is below 0.2 * rhocut (so that every spin-mode convention of 'below the cutoff' agrees) with xmix = 1 and no semilocal functional",
    "nonlocal feature slots take values from {0, uniform-gas value, 1e6} (and -1e3 for sign-indefinite features)",
]
RHOCUT = 1e-9
DIMS = [
    ("sl", ["npa", "nst", "np", "ns"]),
    ("fam", ["SL", "VJ2", "VIJ", "SDMX1", "VK", "VIx", "SDMXG1"]),
    ("base", ["LDA_X/ZERO", "GGA_X_PBE/ZERO", "GGA_X_CHACHIYO/LDA_X", "ONE/GGA_X_PBE", "GGA_C_PBE/ZERO", "NLDA_X_DAMP/ZERO", "RHO/ZERO",
              "x:GGA_X_PBE/-", "x:LDA_X/GGA_C_PBE", "x:MGGA_X_R2SCAN/LDA_C_PW_MOD", "x:GGA_C_PBE/SS_GGA_C_PBE", "x:OS_GGA_C_PBE/-"]),
    ("mode", ["SEP", "NPOL", "POL"]),
    ("nspin", [1, 2]),
    ("ev", ["RBF", "Kernel", "Spline", "Linear"]),
    ("norm", [True, False]),
    ("mix", ["1.0|-|-|-", "0.5|GGA_X_PBE|GGA_C_PBE|-", "0.25|-|-|PBE"]),
    ("rho_mult", ["one", "expnt"]),
]


def _valid(p):
    if p["base"].split("/")[0].replace("x:", "") in ("GGA_C_PBE", "OS_GGA_C_PBE") and p["mode"] == "SEP":
        return False
    if "SS_" in p["base"] and p["mode"] == "SEP":
        return False
    if p["base"] == "x:LDA_X/GGA_C_PBE" and p["mode"] == "SEP":
        return False
    if p["base"].startswith("x:MGGA") and p["sl"] in ("np", "ns"):
        return False
    if p["base"].startswith("NLDA_X_DAMP") and p["fam"] == "SL":
        return False  # this baseline reads feature index 3, a semilocal-only model has at most 3 features
    if p["rho_mult"] == "expnt" and (not p["fam"].startswith("V") or p["sl"] in ("np", "ns")):
        return False
    return True


SPACE = Space(DIMS, _valid)


def initial_cases(tier, seed):
    pts = SPACE.deviations(1)
    pts += SPACE.product(["sl", "base", "mode", "nspin"])
    pts += SPACE.product(["fam", "ev", "norm", "nspin"])
    pts += SPACE.product(["fam", "sl", "mix", "rho_mult"])
    if tier == "thorough":
        pts += SPACE.deviations(2)
        pts += SPACE.product(["fam", "sl", "base", "mode", "nspin"])
    cases = [dict(p, kind="point", seed=seed) for p in SPACE.dedupe(pts)]
    # both semilocal levels (the length-scale exponent has a separate routine per level) and both prefactor options
    for fam, plan, nspin, sl, rm in itertools.product(["VJ", "VI", "VIJ", "VK"], ["gaussian", "spline"], [1, 2], ["npa", "np"], ["one", "expnt"]):
        if sl == "np" and rm == "expnt" and fam in ("VI",):
            pass
        cases.append({"kind": "nldfgen", "fam": fam, "plan": plan, "nspin": nspin, "sl": sl, "rho_mult": rm, "seed": seed})
    for fam, nspin in itertools.product(["SDMX", "SDMX1", "SDMXG1", "SDMXFull", "SADM"], [1, 2]):
        cases.append({"kind": "sdmxgen", "fam": fam, "nspin": nspin, "seed": seed})
    for mol, fam, nspin in itertools.product(["He", "LiH", "Li"], ["SL", "VIJ", "VK", "SDMX1", "VIJ+SDMX1"], [1, 2]):
        if mol == "Li" and nspin == 1:
            continue
        cases.append({"kind": "e2e", "mol": mol, "fam": fam, "nspin": nspin, "seed": seed})
        if fam in ("VIJ", "VK", "SL") and mol in ("He", "Li"):
            cases.append({"kind": "e2e", "mol": mol, "fam": fam, "nspin": nspin, "sl": "np", "seed": seed})
    return cases


def case_label(c):
    if c["kind"] == "point":
        return "point;" + tag(c, SPACE.names)
    return ";".join("%s=%s" % (k, c[k]) for k in c if k != "seed")


CFC = 0.3 * (3 * np.pi ** 2) ** (2.0 / 3)


def _point_alphabet():
    rhos = [0.0, 5e-324, 1e-300, 1e-20, 1e-16, 1e-10 * (1 - 1e-6), 1e-10 * (1 + 1e-6), 0.5e-9 * (1 - 1e-6), 0.5e-9 * (1 + 1e-6),
            1e-9 * (1 - 1e-6), 1e-9 * (1 + 1e-6), 1e-6, 1e-3, 1.0, 1e3, 1e6]
    pts = []
    for rho in rhos:
        if rho == 0.0:
            grads = [0.0]
        else:
            kf = (3 * np.pi ** 2 * rho) ** (1.0 / 3)
            grads = [0.0, 1e-30, 2 * kf * rho * 0.5, 1e10]
        for g in grads:
            tw = g * g / (8 * rho) if rho > 0 else 0.0
            if not np.isfinite(tw) or tw > 1e200:
                continue
            tu = CFC * rho ** (5.0 / 3)
            taus = [tw, tw * (1 + 1e-8), tw + tu, tw + 1e10 * tu] if rho > 0 else [0.0, 1e-30]
            for t in taus:
                if not np.isfinite(t):
                    continue
                for nl in (0, 1, 2):
                    pts.append((rho, g, t, nl))
    return pts


def _feature_slot(kind, ueg, n):
    if kind == 0:
        return np.zeros(n)
    if kind == 1:
        return np.full(n, ueg)
    return np.full(n, 1e6)


def run_point(case):
    from checks import c01

    from mc import fixtures as F

    cfg = tag(case, SPACE.names)
    fails = []
    c = dict(c01.SPACE.base(), seed=case["seed"])
    c.update({k: case[k] for k in ("sl", "fam", "base", "mode", "nspin", "ev", "norm", "mix", "rho_mult")})
    try:
        mol, ks, dm = c01.build(c)
    except Exception as e:
        return {"fail": [{"key": "build-raises;%s;%s" % (type(e).__name__, cfg), "msg": "building the calculator raised %s: %s" % (type(e).__name__, str(e)[:200])}],
                "evals": 0, "outcome": "build-raised"}
    ni = ks._numint
    nspin = case["nspin"]
    ni.rhocut = RHOCUT
    ni.initialize_feature_generators(mol, ks.grids, nspin)
    st = ni.settings
    pts = _point_alphabet()
    n0 = len(pts)
    base = np.zeros((5, n0))
    nlk = np.zeros(n0, dtype=int)
    for i, (rho, g, t, nl) in enumerate(pts):
        base[0, i], base[1, i], base[4, i] = rho, g, t
        nlk[i] = nl
    typical = np.array([0.3, 0.1, 0.0, 0.0, 0.25])
    if nspin == 1:
        rho_in = base
        n = n0
        tot = base[0]
    else:
        blocks = [(base, base), (base, np.repeat(typical[:, None], n0, 1)), (base, np.zeros_like(base)), (np.zeros_like(base), base)]
        a = np.concatenate([b[0] for b in blocks], axis=1)
        b = np.concatenate([b[1] for b in blocks], axis=1)
        rho_in = np.stack([a, b])
        nlk = np.tile(nlk, len(blocks))
        n = a.shape[1]
        tot = a[0] + b[0]
    ueg = st.ueg_vector(1.0)
    nsl = st.sl_settings.nfeat
    nldf_feat = sdmx_feat = None
    if st.has_nldf:
        nn = st.nldf_settings.nfeat
        arr = np.zeros((nspin, nn, n))
        for j in range(nn):
            for kind in (0, 1, 2):
                arr[:, j, nlk == kind] = _feature_slot(kind, ueg[nsl + j], 1)[0]
            if j % 2 == 1:
                arr[:, j, nlk == 2] = -1e3
        nldf_feat = arr if nspin == 2 else arr[0]
    if st.has_sdmx:
        ns = st.sdmx_settings.nfeat
        off = nsl + (st.nldf_settings.nfeat if st.has_nldf else 0)
        arr = np.zeros((nspin, ns, n))
        for j in range(ns):
            for kind in (0, 1, 2):
                arr[:, j, nlk == kind] = _feature_slot(kind, ueg[off + j], 1)[0]
        sdmx_feat = arr if nspin == 2 else arr[0]
    with np.errstate(all="ignore"):
        try:
            exc, (vxc, vnl, vsd) = ni.eval_xc_cider(ks.xc, np.ascontiguousarray(rho_in), nldf_feat, sdmx_feat, deriv=1)[:2]
        except RuntimeError as e:
            if "exponent is too large" in str(e):
                return {"fail": [], "evals": 1, "outcome": ["rejected", cfg]}
            raise
    outs = {"exc": exc, "vxc": vxc}
    if vnl is not None:
        outs["vxc_nldf"] = vnl
    if vsd is not None:
        outs["vxc_sdmx"] = vsd
    for name, a in outs.items():
        a = np.asarray(a)
        bad = ~np.isfinite(a)
        if bad.any():
            idx = np.argwhere(bad)[0]
            g = int(idx[-1])
            p = pts[g % n0]
            fails.append({"key": "nonfinite;%s;%s" % (name, cfg),
                          "msg": "%s is not finite at alphabet point rho=%.3g |grad|=%.3g tau=%.3g nl-slot=%d (block %d of the spin pairing): value %r" % (
                              name, p[0], p[1], p[2], p[3], g // n0, a[tuple(idx)])})
    xmix, xk, ck, xc = case["mix"].split("|")
    pure = xk == "-" and ck == "-" and xc == "-"
    # a libxc-backed ADDITIVE baseline is a semilocal functional, not machine-learned energy: it is
    # (by design of MappedDFTKernel2) added after the cutoff, so only the feature derivatives are
    # required to vanish there
    has_sl_add = case["base"].startswith("x:") and not case["base"].endswith("/-")
    if pure and not fails:
        low = tot < 0.2 * RHOCUT
        for name, a in outs.items():
            if has_sl_add and name in ("exc", "vxc"):
                continue
            a = np.asarray(a)
            sel = a[..., low]
            if sel.size and np.any(sel != 0.0):
                idx = np.argwhere(sel != 0.0)[0]
                g = int(np.where(low)[0][idx[-1]])
                p = pts[g % n0]
                fails.append({"key": "nonzero-below-cutoff;%s;%s" % (name, cfg),
                              "msg": "%s = %r at a point with total density %.3g < 0.2 rhocut (rho=%.3g |grad|=%.3g tau=%.3g nl-slot=%d)" % (
                                  name, sel[tuple(idx)], tot[g], p[0], p[1], p[2], p[3])})
    # separable (SEP) spin mode: each spin channel is its own functional of 2 n_s, so a channel whose density is well
    # below the cutoff contributes exactly nothing to ITS potential, whatever the other channel holds
    if pure and not fails and case["mode"] == "SEP" and nspin == 2:
        for s_ in range(2):
            low_s = 2 * np.asarray(rho_in)[s_, 0] < 0.2 * RHOCUT
            for name, a in outs.items():
                if name == "exc" or (has_sl_add and name == "vxc"):
                    continue
                a = np.asarray(a)
                if a.ndim < 2 or a.shape[0] != 2:
                    continue
                sel = a[s_][..., low_s]
                if sel.size and np.any(sel != 0.0):
                    idx = np.argwhere(sel != 0.0)[0]
                    g = int(np.where(low_s)[0][idx[-1]])
                    fails.append({"key": "nonzero-below-cutoff-channel;%s;%s" % (name, cfg),
                                  "msg": "%s of spin channel %d = %r at a point where that channel's density %.3g is below 0.2 rhocut / 2 (other channel %.3g)" % (
                                      name, s_, sel[tuple(idx)], np.asarray(rho_in)[s_, 0, g], np.asarray(rho_in)[1 - s_, 0, g])})
                    break
    chk = 0.0
    for a in outs.values():
        a = np.asarray(a)
        chk += float(np.abs(a[np.isfinite(a)]).clip(max=1e30).sum())
    return {"fail": fails, "evals": 1, "outcome": [cfg, float("%.6e" % chk)], "info": {"points": int(n)}}


def _synthetic_rho(mol, grids, level, variant, nspin):
    """Non-negative density data on the grid with exact zeros, denormals and steps across rhocut."""
    r = np.linalg.norm(grids.coords - mol.atom_coords()[0], axis=1)
    rho = np.exp(-2.0 * r) * 0.4
    grad = -2.0 * rho[None, :] * (grids.coords - mol.atom_coords()[0]).T / np.maximum(r, 1e-12)
    if variant == "zeros":
        m = r > 2.5
        rho[m] = 0.0
        grad[:, m] = 0.0
    elif variant == "denormal":
        m = r > 2.0
        rho[m] = 5e-324
        grad[:, m] = 0.0
    elif variant == "step":
        m = (np.arange(rho.size) % 3 == 0)
        rho[m] = 0.9e-10
        rho[(np.arange(rho.size) % 3 == 1)] = 1.1e-10
    elif variant == "allzero":
        rho[:] = 0.0
        grad[:] = 0.0
    sigma = (grad ** 2).sum(0)
    tau = sigma / (8 * np.maximum(rho, 1e-300)) * (rho > 0) + CFC * rho ** (5.0 / 3) * 0.4
    out = np.zeros((5 if level == "MGGA" else 4, rho.size))
    out[0] = rho
    out[1:4] = grad
    if level == "MGGA":
        out[4] = tau
    return out / nspin


def run_nldfgen(case):
    from checks import c07

    from mc import fixtures as F

    mol = F.make_mol("He")
    sl = case.get("sl", "npa")
    c = {"fam": case["fam"], "sl": sl, "rho_mult": case.get("rho_mult", "one"), "plan": case["plan"]}
    st, grids, g1, g2 = c07._nldf_gens(c, mol)
    g = g1 if case["nspin"] == 1 else g2
    fails = []
    ck = "fam=%s;plan=%s;nspin=%d;sl=%s;rho_mult=%s" % (case["fam"], case["plan"], case["nspin"], sl, c["rho_mult"])
    sig = []
    for variant in ("smooth", "zeros", "denormal", "step", "allzero"):
        rho = _synthetic_rho(mol, grids, st.sl_settings.level, variant, case["nspin"])
        with np.errstate(all="ignore"):
            try:
                for s in range(case["nspin"]):
                    f = g.get_features(rho.copy(), spin=s)
                    v = g.get_potential(np.ones_like(f) * grids.weights, spin=s)
            except RuntimeError as e:
                if "exponent is too large" in str(e):
                    sig.append("rejected")
                    continue
                raise
        for name, a in (("features", f), ("potential", v)):
            if not np.all(np.isfinite(a)):
                fails.append({"key": "nonfinite;nldfgen;%s;%s;%s" % (name, variant, ck), "msg": "NLDF generator %s not finite for the '%s' density" % (name, variant)})
        # (the potential of a zero density need not vanish: the features are linear functionals of the
        # density, so their functional derivative is the kernel itself)
        if variant == "allzero" and np.any(f != 0):
            fails.append({"key": "nonzero-for-zero-density;nldfgen;" + ck, "msg": "NLDF features of an identically zero density are not zero: %.3e" % np.abs(f).max()})
        sig.append(float("%.6e" % np.abs(f[np.isfinite(f)]).sum()))
    return {"fail": fails, "evals": 10, "outcome": [ck] + sig}


def run_sdmxgen(case):
    from ciderpress.pyscf.sdmx import PySCFSDMXInitializer

    from mc import fixtures as F

    mol = F.make_mol("LiH")
    st = F.feature_settings(case["fam"], normalize=False)
    nspin = case["nspin"]
    gen = PySCFSDMXInitializer(st.sdmx_settings, lowmem=False).initialize_sdmx_generator(mol, nspin)
    coords = np.array([[0, 0, 0.0], [0, 0, 1.5], [0, 0, 40.0], [300.0, 0, 0], [1e4, 1e4, 1e4], [0, 0, -0.35 / 0.529177], [1e-9, 0, 0]])
    fails = []
    ck = "fam=%s;nspin=%d" % (case["fam"], nspin)
    sig = []
    for name, dm in (("D1", F.make_dm(mol, "D1", case["seed"]) / nspin), ("zero", np.zeros((mol.nao, mol.nao))), ("tiny", 1e-300 * F.make_dm(mol, "D1", case["seed"]))):
        with np.errstate(all="ignore"):
            f = gen.get_features(dm, mol, np.ascontiguousarray(coords))
            vm = np.zeros((mol.nao, mol.nao))
            gen.get_vxc_(vm, np.ones_like(f))
        if not (np.all(np.isfinite(f)) and np.all(np.isfinite(vm))):
            fails.append({"key": "nonfinite;sdmxgen;%s;%s" % (name, ck), "msg": "SDMX features/potential not finite for density matrix '%s' at far/coincident points" % name})
        if name == "zero" and np.any(f != 0):
            fails.append({"key": "nonzero-for-zero-density;sdmxgen;" + ck, "msg": "SDMX features of a zero density matrix are not zero"})
        sig.append(float("%.6e" % np.abs(f[np.isfinite(f)]).sum()))
    return {"fail": fails, "evals": 6, "outcome": [ck] + sig}


def run_e2e(case):
    from mc import fixtures as F

    mol = F.make_mol(case["mol"])
    st = F.feature_settings(case["fam"], slmode=case.get("sl", "npa"))
    ml = F.make_mlxc(st, evals=("RBF",), mode="SEP", seed=case["seed"])
    nspin = case["nspin"]
    # a long radial grid: the outermost shells are hundreds of Bohr away, the density underflows to 0
    ks = F.make_ks(mol, ml, nspin=nspin, atom_grid=(60, 26), lmax=4, xmix=1.0)
    fails = []
    ck = "mol=%s;fam=%s;nspin=%d;sl=%s" % (case["mol"], case["fam"], nspin, case.get("sl", "npa"))
    rmax = float(np.linalg.norm(ks.grids.coords, axis=1).max())
    d0 = F.make_dm(mol, "D0")
    d1 = F.make_dm(mol, "D1", case["seed"])
    sig = []
    for name, dm in (("D0", d0), ("D1", d1), ("zero", np.zeros_like(d0)), ("emptybeta", d1)):
        if name == "emptybeta" and nspin == 1:
            continue
        # "emptybeta": a one-channel system (all electrons in the alpha channel, beta density exactly zero everywhere)
        dmu = dm if nspin == 1 else (np.array([dm, np.zeros_like(dm)]) if name == "emptybeta" else np.array([0.6 * dm, 0.4 * dm]))
        with np.errstate(all="ignore"):
            try:
                n, e, v = F.nr(ks, dmu)
            except RuntimeError as ex:
                if "exponent is too large" in str(ex):
                    continue
                raise
        if not (np.all(np.isfinite(np.asarray(n, float))) and np.isfinite(e) and np.all(np.isfinite(v))):
            fails.append({"key": "nonfinite;e2e;%s;%s" % (name, ck), "msg": "nr_%s returned non-finite nelec/excsum/vmat for density '%s' on a grid reaching %.0f Bohr" % ("rks" if nspin == 1 else "uks", name, rmax)})
        if name == "zero" and (e != 0.0 or np.any(np.asarray(v) != 0.0)):
            fails.append({"key": "nonzero-for-zero-density;e2e;" + ck, "msg": "zero density matrix gives excsum %r, |vmat|max %.3e" % (e, np.abs(v).max())})
        sig.append(float("%.8e" % e))
    return {"fail": fails, "evals": 3, "outcome": [ck] + sig, "info": {"rmax": rmax}}


def run_case(case):
    k = case["kind"]
    if k == "point":
        return run_point(case)
    if k == "nldfgen":
        return run_nldfgen(case)
    if k == "sdmxgen":
        return run_sdmxgen(case)
    return run_e2e(case)
