"""C07 - spin-polarised and unpolarised evaluations agree; spin labels are symmetric.
Engine E1 (edge relations on the nspin edge of the lattice), DESIGN.md section 5/C07.

Every state is a configuration WITHOUT the spin coordinate; the check evaluates the
three edge relations between its nspin=1 and nspin=2 realisations:
  (a) closed shell  E_uks(n/2, n/2) = E_rks(n),  vmat_a = vmat_b = vmat_rks
  (b) label swap    E(a, b) = E(b, a),           vmat_a <-> vmat_b
  (c) separable     E(a, b) = (E_rks(2a) + E_rks(2b)) / 2, vmat_a(a,b) = vmat_rks(2a)
end to end through CiderNumInt.nr_rks / nr_uks, and layer by layer (semilocal plan,
length-scale exponents, NLDF generator, SDMX generator, baselines, evaluators) so that
a compensating pair of nspin errors in two layers is still seen.
"""
import itertools

import numpy as np

from mc.space import Space, tag

ID = "C07"
VARIANT = "plain"
LEVEL_RULE = (
    "states = configuration points without the spin coordinate (full products of family x semilocal mode x spin mode, "
    "spin mode x evaluator x baseline, deviations<=1 of the rest) + layer-level states; each state evaluates the three "
    "spin edge relations; outcome = rounded energies; distinct = distinct energy signatures"
)
ASSUMPTIONS = [
    "closed-shell relation tested with exactly equal channels; polarised relations with (0.55 D1, 0.45 D2), D1/D2 positive definite",
    "relation (c) only for models that are separable by construction: SEP spin mode, exchange-type baselines, no correlation in the semilocal mix",
    "tolerance 1e-8 relative (measured <= 1.3e-9 on the unchanged tree over seeds 0-3, 7 and the thorough lattice): only summation order may differ between the two spin paths",
]
TOL = 1e-8  # measured over seeds 0-3, 7 and the thorough lattice: <= 1.3e-9 (1e-16 regularisers of s^2 / alpha are not
# spin-scaling invariant and show in the diffuse tail of the base molecule); <= 7e-11 elsewhere (summation order)

from checks import c01 as _c01  # noqa: E402  (shares the lattice dimensions and the builder)

DIMS = [(n, v) for n, v in _c01.DIMS if n not in ("nspin", "dm")]


def _valid(p):
    q = dict(p, nspin=1, dm="D1")
    return _c01._valid(q)


SPACE = Space(DIMS, _valid)
XBASES = ("LDA_X/ZERO", "GGA_X_PBE/ZERO", "GGA_X_CHACHIYO/LDA_X", "ONE/GGA_X_PBE", "x:GGA_X_PBE/-", "x:LDA_X/-")


def _points(tier):
    pts = SPACE.deviations(1)
    pts += SPACE.product(["fam", "sl", "mode"])
    pts += SPACE.product(["mode", "ev", "base"], fixed={"fam": "SL"})
    pts += SPACE.product(["mode", "base", "mix"], fixed={"fam": "VJ2"})
    pts += SPACE.product(["fam", "mix"], fixed={})
    if tier == "thorough":
        pts += SPACE.deviations(2)
        pts += SPACE.product(["fam", "mode", "ev", "mix"])
        pts += SPACE.product(["fam", "plan", "interp", "mode"])
        pts += SPACE.product(["mol", "fam", "mode"])
    return SPACE.dedupe(pts)


def initial_cases(tier, seed):
    cases = [dict(p, kind="e2e", seed=seed) for p in _points(tier)]
    for sl in ("npa", "nst", "np", "ns"):
        cases.append({"kind": "slplan", "sl": sl, "seed": seed})
    for lvl in ("MGGA", "GGA"):
        cases.append({"kind": "expnt", "level": lvl, "seed": seed})
    for fam, sl, rm, plan in itertools.product(["VJ", "VI", "VIJ", "VK", "VIJ2", "VIx"], ["npa", "np"], ["one", "expnt"], ["gaussian", "spline"]):
        if rm == "expnt" and sl == "np":
            continue
        cases.append({"kind": "nldfgen", "fam": fam, "sl": sl, "rho_mult": rm, "plan": plan, "seed": seed})
    for fam in ["SDMX", "SDMX1", "SDMXG", "SDMXG1", "SDMXFull", "SADM"]:
        cases.append({"kind": "sdmxgen", "fam": fam, "seed": seed})
    from checks import c04

    for ev, mode, mul, add in itertools.product(c04.EVS, c04.MODES, c04.MULS, ["ZERO", "LDA_X", "GGA_C_PBE", "None"]):
        if mode == "POL" and ev != "RBF":
            continue
        if mode == "SEP" and "GGA_C_PBE" in (mul, add):
            continue
        if tier == "quick" and ev not in ("RBF", "Kernel+Spline+RBF", "AntisymRBF") and (mul, add) != ("LDA_X", "ZERO"):
            continue
        cases.append({"kind": "model", "ev": ev, "mode": mode, "mul": mul, "add": add, "seed": seed})
    for mode, mul, add in itertools.product(c04.MODES, c04.XMULS, c04.XADDS):
        if mode == "SEP" and (mul in c04.NONSEP or add in c04.NONSEP):
            continue
        cases.append({"kind": "xmodel", "ev": "RBF", "mode": mode, "mul": mul, "add": add, "seed": seed})
    return cases


def case_label(c):
    if c["kind"] == "e2e":
        return "e2e;" + tag(c, SPACE.names)
    return ";".join("%s=%s" % (k, c[k]) for k in c if k != "seed")


def _rel(a, b):
    a = np.asarray(a, float)
    b = np.asarray(b, float)
    return float(np.abs(a - b).max() / (1.0 + max(np.abs(a).max(), np.abs(b).max())))


def run_e2e(case):
    from mc import fixtures as F

    cfg = tag(case, SPACE.names)
    fails = []
    # A multiplicative baseline that is not density weighted ("ONE") exposes the 1e-16 regularisers of
    # s^2 / alpha at rho < 1e-6, which are (deliberately, C08) not spin-scaling invariant: measured
    # 1.1e-9 relative on the unchanged tree; such models are compared at 1e-7 instead of 2e-11.
    TOL = 1e-7 if case["base"].split("/")[0].replace("x:", "") == "ONE" else globals()["TOL"]
    if case["base"].startswith("x:"):
        # libxc-backed baselines: libxc applies its density threshold per spin channel, so the polarised and the
        # unpolarised evaluation treat the points between the two thresholds differently; measured <= 1.3e-9 relative
        # on the molecule with the diffuse shell (thorough lattice), 3e-11 elsewhere
        TOL = max(TOL, 2e-8)
    c1 = dict(case, nspin=1, dm="D1")
    c2 = dict(case, nspin=2, dm="D1")
    mol, ks1, d1 = _c01.build(c1)
    _, ks2, _ = _c01.build(c2)
    d2 = F.make_dm(mol, "D2", case["seed"])
    evals = 0
    # (a) closed shell
    if "FL" in case["fam"]:
        # models with fractional-Laplacian features: whether the integrator can evaluate them at all is C01's matter
        # (recorded there as a known finding); the spin relations apply as soon as it returns numbers
        try:
            n1, e1, v1 = F.nr(ks1, d1)
        except Exception as e:
            return {"fail": [], "evals": 1, "outcome": "cannot-evaluate:%s" % type(e).__name__}
    n1, e1, v1 = F.nr(ks1, d1)
    n2, e2, v2 = F.nr(ks2, np.array([0.5 * d1, 0.5 * d1]))
    evals += 2
    for name, a, b in (("E", e1, e2), ("vmat_a", v1, v2[0]), ("vmat_b", v1, v2[1]), ("nelec", n1, n2[0] + n2[1])):
        r = _rel(a, b)
        if not r <= TOL:
            fails.append({"key": "closed-shell;%s;" % name.split("_")[0] + cfg,
                          "msg": "closed shell through nr_uks differs from nr_rks in %s: rel %.3e (E_rks=%.12g, E_uks=%.12g)" % (name, r, e1, e2)})
            break
    # (b) swap
    A, B = 0.55 * d1, 0.45 * d2
    nab, eab, vab = F.nr(ks2, np.array([A, B]))
    nba, eba, vba = F.nr(ks2, np.array([B, A]))
    evals += 2
    for name, a, b in (("E", eab, eba), ("vmat", vab[0], vba[1]), ("vmat", vab[1], vba[0]), ("nelec", nab[0], nba[1])):
        r = _rel(a, b)
        if not r <= TOL:
            fails.append({"key": "swap;%s;" % name + cfg, "msg": "exchanging the spin channels changes %s: rel %.3e (E_ab=%.12g, E_ba=%.12g)" % (name, r, eab, eba)})
            break
    # (c) separable
    xmix, xk, ck, xc = case["mix"].split("|")
    sep = case["mode"] == "SEP" and case["base"] in XBASES and ck == "-" and xc == "-"
    if sep:
        _, ea, va = F.nr(ks1, 2 * A)
        _, eb, vb = F.nr(ks1, 2 * B)
        evals += 2
        for name, a, b in (("E", eab, 0.5 * (ea + eb)), ("vmat", vab[0], va), ("vmat", vab[1], vb)):
            r = _rel(a, b)
            if not r <= TOL:
                fails.append({"key": "separable;%s;" % name + cfg,
                              "msg": "E[a,b] != (E[2a]+E[2b])/2 for a separable model in %s: rel %.3e (%.12g vs %.12g)" % (name, r, eab, 0.5 * (ea + eb))})
                break
    return {"fail": fails, "evals": evals, "edges": 3 if sep else 2,
            "outcome": [float("%.9e" % e1), float("%.9e" % eab)], "info": {"separable": sep}}


def _rho_data(n, seed, level="MGGA"):
    """Physically admissible (rho, grad, tau) data for one channel."""
    rng = np.random.RandomState(90 + seed)
    rho = np.exp(np.linspace(np.log(1e-2), np.log(30.0), n))
    g = rng.randn(3, n) * rho ** (4.0 / 3) * 0.7
    sigma = (g * g).sum(0)
    tau = sigma / (8 * rho) + 2.871 * rho ** (5.0 / 3) * (0.1 + rng.rand(n))
    out = np.zeros((5, n))
    out[0], out[1:4], out[4] = rho, g, tau
    return out


def run_slplan(case):
    from ciderpress.dft.plans import SemilocalPlan
    from ciderpress.dft.settings import SemilocalSettings

    st = SemilocalSettings(case["sl"])
    p1, p2 = SemilocalPlan(st, 1), SemilocalPlan(st, 2)
    r = _rho_data(60, case["seed"])
    r1 = r[None]
    r2 = np.stack([0.5 * r, 0.5 * r])
    f1 = p1.get_feat(r1)
    f2 = p2.get_feat(r2)
    fails = []
    for s in (0, 1):
        if _rel(f1[0], f2[s]) > 1e-12:
            fails.append({"key": "slplan;closed-shell;sl=%s" % case["sl"], "msg": "semilocal features of (n/2,n/2) differ from those of n: %.3e" % _rel(f1[0], f2[s])})
    # potential: v_rks = v_uks channel for identical vfeat
    rng = np.random.RandomState(5)
    vf = rng.randn(1, st.nfeat, 60)
    v1 = np.zeros((1, 5, 60))
    p1.get_vxc(r1, vf.copy(), vxc=v1)
    v2 = np.zeros((2, 5, 60))
    p2.get_vxc(r2, np.concatenate([vf, vf]) * 0.5, vxc=v2)
    for s in (0, 1):
        if _rel(v1[0], v2[s]) > 1e-12:
            fails.append({"key": "slplan;closed-shell-vxc;sl=%s" % case["sl"], "msg": "semilocal potential of channel %d differs from the unpolarised one: %.3e" % (s, _rel(v1[0], v2[s]))})
    # swap
    ra = _rho_data(60, case["seed"] + 1)
    fab = p2.get_feat(np.stack([0.5 * r, 0.5 * ra]))
    fba = p2.get_feat(np.stack([0.5 * ra, 0.5 * r]))
    if _rel(fab[0], fba[1]) > 0 or _rel(fab[1], fba[0]) > 0:
        fails.append({"key": "slplan;swap;sl=%s" % case["sl"], "msg": "semilocal features not label symmetric"})
    # separable scaling: channel features of (a,b) are the unpolarised features of 2a
    f2a = p1.get_feat(r[None])
    if _rel(fab[0], f2a[0]) > 1e-12:
        fails.append({"key": "slplan;separable;sl=%s" % case["sl"], "msg": "channel features of (a,b) differ from unpolarised features of 2a: %.3e" % _rel(fab[0], f2a[0])})
    return {"fail": fails, "evals": 6, "edges": 4, "outcome": [float("%.9e" % f1.sum())]}


def run_expnt(case):
    from ciderpress.dft import settings as S

    r = _rho_data(80, case["seed"])
    rho, sigma, tau = r[0], (r[1:4] ** 2).sum(0), r[4]
    fails = []
    for params in ([1.0, 0.03125, 0.02], [2.0, 0.0, 0.04], [0.5, 0.1, 0.0]):
        if case["level"] == "MGGA":
            a1 = S.get_cider_exponent(rho.copy(), sigma.copy(), tau.copy(), a0=params[0], grad_mul=params[1], tau_mul=params[2], nspin=1)
            a2 = S.get_cider_exponent(0.5 * rho, 0.25 * sigma, 0.5 * tau, a0=params[0], grad_mul=params[1], tau_mul=params[2], nspin=2)
        else:
            a1 = S.get_cider_exponent_gga(rho.copy(), sigma.copy(), a0=params[0], grad_mul=params[1], nspin=1)
            a2 = S.get_cider_exponent_gga(0.5 * rho, 0.25 * sigma, a0=params[0], grad_mul=params[1], nspin=2)
        if _rel(a1[0], a2[0]) > 1e-12:
            fails.append({"key": "expnt;closed-shell;level=%s" % case["level"],
                          "msg": "length-scale exponent of a half-density channel (nspin=2) differs from the unpolarised one: %.3e (params %s)" % (_rel(a1[0], a2[0]), params)})
        # derivatives: d a / d rho_s = 2 * d a/d rho etc.
        facs = [2.0, 4.0, 2.0]
        for k in range(1, len(a1)):
            if _rel(np.asarray(a1[k]) * facs[k - 1], a2[k]) > 1e-12:
                fails.append({"key": "expnt;closed-shell-deriv%d;level=%s" % (k, case["level"]),
                              "msg": "exponent derivative %d inconsistent between nspin 1 and 2: %.3e" % (k, _rel(np.asarray(a1[k]) * facs[k - 1], a2[k]))})
    return {"fail": fails, "evals": 6, "edges": 3, "outcome": [float("%.9e" % np.sum(a1[0]))]}


def _nldf_gens(case, mol):
    from ciderpress.pyscf.gen_cider_grid import CiderGrids
    from ciderpress.pyscf.nldf_convolutions import PySCFNLDFInitializer

    from mc import fixtures as F

    st = F.feature_settings(case["fam"], slmode=case["sl"], rho_mult=case["rho_mult"], normalize=False)
    grids = CiderGrids(mol, lmax=4)
    grids.atom_grid = (20, 50)
    grids.prune = None
    F.build_grids(grids, 4)
    kw = dict(F.FAST_NLDF, plan_type=case["plan"], lmax=4)
    init = PySCFNLDFInitializer(st.nldf_settings, **kw)
    g1 = init.initialize_nldf_generator(mol, grids.grids_indexer, 1)
    g2 = init.initialize_nldf_generator(mol, grids.grids_indexer, 2)
    g1.interpolator.set_coords(grids.coords)
    g2.interpolator.set_coords(grids.coords)
    return st, grids, g1, g2


def _rho_on_grid(mol, grids, dm, level):
    from pyscf.dft import numint

    ao = numint.eval_ao(mol, grids.coords, deriv=1)
    return numint.eval_rho(mol, ao, dm, xctype="MGGA" if level == "MGGA" else "GGA")[[0, 1, 2, 3, 5] if level == "MGGA" else [0, 1, 2, 3]] if False else _eval_rho(mol, ao, dm, level)


def _eval_rho(mol, ao, dm, level):
    from pyscf.dft import numint

    if level == "MGGA":
        r = numint.eval_rho(mol, ao, dm, xctype="MGGA", with_lapl=False)
        return np.ascontiguousarray(r)
    return np.ascontiguousarray(numint.eval_rho(mol, ao, dm, xctype="GGA"))


def run_nldfgen(case):
    from mc import fixtures as F

    mol = F.make_mol("HF")
    st, grids, g1, g2 = _nldf_gens(case, mol)
    level = st.sl_settings.level
    d1 = F.make_dm(mol, "D1", case["seed"])
    d2 = F.make_dm(mol, "D2", case["seed"])
    r1 = _rho_on_grid(mol, grids, d1, level)
    r2 = _rho_on_grid(mol, grids, d2, level)
    ck = ";".join("%s=%s" % (k, case[k]) for k in ("fam", "sl", "rho_mult", "plan"))
    fails = []
    f_r = g1.get_features(r1.copy(), spin=0)
    f_a = g2.get_features(0.5 * r1, spin=0)
    f_b = g2.get_features(0.5 * r1, spin=1)
    w = grids.weights
    big = r1[0] > 1e-6
    for s, f in ((0, f_a), (1, f_b)):
        r = _rel(f_r[:, big], f[:, big])
        if not r <= 1e-10:
            i = int(np.argmax(np.abs(f_r - f)[:, big].max(1)))
            fails.append({"key": "nldfgen;closed-shell;" + ck,
                          "msg": "NLDF features of a half-density channel %d (nspin=2) differ from the unpolarised features: rel %.3e, worst feature %d" % (s, r, i)})
            break
    # potential: same vfeat for closed shell -> v_uks channel == v_rks
    rng = np.random.RandomState(3)
    vf = rng.randn(*f_r.shape) * w * r1[0]  # density weighted, as every physical model supplies it
    v_r = g1.get_potential(vf.copy(), spin=0)
    v_a = g2.get_potential(0.5 * vf, spin=0)
    r = _rel(v_r[:, big], v_a[:, big])
    if not r <= 1e-10:
        fails.append({"key": "nldfgen;closed-shell-potential;" + ck,
                      "msg": "NLDF potential of a half-density channel differs from the unpolarised potential: rel %.3e" % r})
    # separable: channel features of (a, .) equal the unpolarised features of 2a
    f_2a = g1.get_features(r2.copy(), spin=0)
    f_ab = g2.get_features(0.5 * r2, spin=1)
    big2 = r2[0] > 1e-6
    r = _rel(f_2a[:, big2], f_ab[:, big2])
    if not r <= 1e-10:
        fails.append({"key": "nldfgen;separable;" + ck, "msg": "channel NLDF features of a differ from unpolarised features of 2a: rel %.3e" % r})
    return {"fail": fails, "evals": 7, "edges": 3, "outcome": [float("%.9e" % np.abs(f_r[:, big]).sum())]}


def run_sdmxgen(case):
    from pyscf.dft import numint

    from ciderpress.pyscf.sdmx import PySCFSDMXInitializer

    from mc import fixtures as F

    mol = F.make_mol("HF")
    st = F.feature_settings(case["fam"], normalize=False)
    coords = F.build_grids(__import__("pyscf").dft.gen_grid.Grids(mol).set(atom_grid=(15, 26), prune=None), 4).coords[::3].copy()
    d1 = F.make_dm(mol, "D1", case["seed"])
    d2 = F.make_dm(mol, "D2", case["seed"])
    fails = []
    out = []
    for lowmem in (False,):
        init = PySCFSDMXInitializer(st.sdmx_settings, lowmem=lowmem)
        g1 = init.initialize_sdmx_generator(mol, 1)
        g2 = init.initialize_sdmx_generator(mol, 2)
        f_r = g1.get_features(d1, mol, coords)
        f_a = g2.get_features(0.5 * d1, mol, coords)
        r = _rel(f_r, f_a)
        if not r <= 1e-12:
            fails.append({"key": "sdmxgen;closed-shell;fam=%s" % case["fam"], "msg": "SDMX features of a half-density channel differ from the unpolarised ones: rel %.3e" % r})
        nao = mol.nao
        vm_r = np.zeros((nao, nao))
        vm_a = np.zeros((nao, nao))
        rng = np.random.RandomState(11)
        vg = rng.randn(*f_r.shape)
        g1.get_features(d1, mol, coords)
        g1.get_vxc_(vm_r, vg.copy())
        g2.get_features(0.5 * d1, mol, coords)
        g2.get_vxc_(vm_a, 0.5 * vg)
        r = _rel(vm_r, vm_a)
        if not r <= 1e-12:
            fails.append({"key": "sdmxgen;closed-shell-potential;fam=%s" % case["fam"], "msg": "SDMX potential matrix of a half-density channel differs from the unpolarised one: rel %.3e" % r})
        out.append(float("%.9e" % np.abs(f_r).sum()))
    return {"fail": fails, "evals": 6, "edges": 2, "outcome": out}


def run_model(case, libxc=False):
    from checks import c04

    fails = []
    c = dict(case, kind="libxc" if libxc else "native", nspin=1, rhocut=0.0)
    ck = ";".join("%s=%s" % (k, case[k]) for k in ("ev", "mode", "mul", "add"))
    ml = c04._model(c)
    X1 = c04._lattice(1)
    Xb = c04._lattice(2)[1:2]
    n = X1.shape[2]
    if libxc:
        rt1 = c04._rho_tuple(1, n)
        rt2 = [np.asfortranarray(np.concatenate([0.5 * rt1[0], 0.5 * rt1[0]])),
               np.asfortranarray(np.concatenate([0.25 * rt1[1]] * 3)),
               np.asfortranarray(np.concatenate([0.5 * rt1[2], 0.5 * rt1[2]]))]
        call1 = lambda X: ml(X.copy(), tuple(r.copy(order="F") for r in rt1))[:2]
        call2 = lambda X: ml(X.copy(), tuple(r.copy(order="F") for r in rt2))[:2]
    else:
        call1 = call2 = lambda X: ml(X.copy())
    r1, d1 = call1(X1)
    r2, d2 = call2(np.concatenate([X1, X1]))
    if _rel(r1, r2) > 1e-12:
        fails.append({"key": "model;closed-shell;E;" + ck, "msg": "model energy for two equal channels differs from the single-channel call: %.3e" % _rel(r1, r2)})
    if _rel(d2[0], d2[1]) > 1e-12 or _rel(d1[0], d2[0] + d2[1]) > 1e-12:
        fails.append({"key": "model;closed-shell;dres;" + ck,
                      "msg": "feature derivatives for two equal channels do not add up to the single-channel derivative: %.3e / %.3e" % (_rel(d2[0], d2[1]), _rel(d1[0], d2[0] + d2[1]))})
    if not libxc:
        # the model-level low-density cutoff must act on the same (total) density in both paths: density column set to
        # values on both sides of the cutoff and of half the cutoff
        rc = 1e-3
        Xc = X1.copy()
        Xc[0, 0, :] = rc * np.resize(np.array([0.3, 0.49, 0.51, 0.75, 0.99, 1.01, 1.5, 3.0]), n)
        rc1, dc1 = ml(Xc.copy(), rhocut=rc)
        rc2, dc2 = ml(np.concatenate([Xc, Xc]), rhocut=rc)
        if not (np.array_equal(rc1 == 0, rc2 == 0) and _rel(rc1, rc2) <= 1e-12 and _rel(dc1[0], dc2[0] + dc2[1]) <= 1e-12):
            bad = np.where((rc1 == 0) != (rc2 == 0))[0]
            fails.append({"key": "model;closed-shell;cutoff;" + ck,
                          "msg": "with rhocut = %g the two-equal-channel call zeroes other points than the single-channel call (e.g. total density %s x rhocut: %s vs %s)" % (
                              rc, (Xc[0, 0, bad[:3]] / rc).tolist(), rc1[bad[:3]].tolist(), rc2[bad[:3]].tolist())})
        rab, dab = call2(np.concatenate([X1, Xb]))
        rba, dba = call2(np.concatenate([Xb, X1]))
        if _rel(rab, rba) > 1e-12 or _rel(dab[0], dba[1]) > 1e-12 or _rel(dab[1], dba[0]) > 1e-12:
            fails.append({"key": "model;swap;" + ck, "msg": "model not symmetric under exchange of the spin channels: %.3e" % _rel(rab, rba)})
        if case["mode"] == "SEP":
            ra, da = call1(X1)
            rb, db = call1(Xb)
            if _rel(rab, 0.5 * (ra + rb)) > 1e-12:
                fails.append({"key": "model;separable;" + ck, "msg": "SEP model: E[a,b] != (E[2a]+E[2b])/2: %.3e" % _rel(rab, 0.5 * (ra + rb))})
    return {"fail": fails, "evals": 6, "edges": 3, "outcome": [float("%.9e" % r1.sum())]}


def run_case(case):
    k = case["kind"]
    if k == "e2e":
        return run_e2e(case)
    if k == "slplan":
        return run_slplan(case)
    if k == "expnt":
        return run_expnt(case)
    if k == "nldfgen":
        return run_nldfgen(case)
    if k == "sdmxgen":
        return run_sdmxgen(case)
    if k == "model":
        return run_model(case)
    return run_model(case, libxc=True)


def finish(tier, seed, cases, results):
    n_edges = sum(int(r.get("edges", 0)) for r in results)
    return {"coverage": {"transitions": max(n_edges, 1), "tolerance": TOL}}
