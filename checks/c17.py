"""C17 - analytic nuclear gradients equal the derivative of the SCF energy.
Engine E1, DESIGN.md section 5/C17.

States  = {RKS, UKS} x density fitting x feature family (semilocal GGA / meta-GGA, NLDF j / ij / k)
          x interpolator x molecule, each split into one case per nuclear coordinate so that EVERY
          component of the force vector (a complete basis, 3 natm) is decided.
Oracle  = with grid_response=True: analytic force component vs Richardson-extrapolated central
          differences of converged SCF energies at displaced geometries (delta = 2e-3, 1e-3 Bohr),
          1e-6 Ha/Bohr; sum over atoms of the forces = 0 and zero torque to 1e-7;
          with grid_response=False: agreement with the full-response gradient to the fixed-grid
          accuracy (measured difference x 3); unsupported combinations (SDMX, fractional-Laplacian
          features, several density matrices) must raise NotImplementedError.
"""
import itertools

import numpy as np

ID = "C17"
VARIANT = "plain"
LEVEL_RULE = (
    "states = (method x density fitting x family x interpolator x molecule) x nuclear coordinate; each state compares one "
    "analytic force component with Richardson differences of converged SCF energies; outcome = rounded force component"
)
ASSUMPTIONS = [
    "small molecules (LiH, NH2 doublet, H2O in sto-3g; OH is avoided because its degenerate pi hole makes the UKS SCF oscillate), coarse grids (the identity holds on any grid when grid response is included)",
    "SCF converged to 1e-12; finite-difference steps 2e-3 / 1e-3 Bohr; an SCF that does not converge is a harness error, not a violation",
    "synthetic mapped models (C squared-exponential evaluator, SEP mode, LDA exchange baseline) mixed with PBE",
]
TOL = 1e-6


def initial_cases(tier, seed):
    cases = []
    quick = tier == "quick"
    states = []
    for mol, nspin in (("LiH", 1), ("LiH", 2), ("NH2", 2)) + ((("H2O", 1),) if not quick else ()):
        for fam, sl in (("SL", "npa"), ("SL", "np"), ("VJ", "npa"), ("VIJ", "npa"), ("VK", "npa"), ("VIJ", "np")):
            for interp in ("onsite_direct", "onsite_spline"):
                for df in (False, True):
                    if fam == "SL" and interp != "onsite_direct":
                        continue
                    if quick:
                        keep = (mol == "LiH" and df is False and (fam, sl, interp) in (("SL", "npa", "onsite_direct"), ("VIJ", "npa", "onsite_direct"), ("VK", "npa", "onsite_spline"))) or \
                               (mol == "NH2" and fam == "VIJ" and sl == "npa" and interp == "onsite_direct" and df is False) or \
                               (mol == "LiH" and nspin == 1 and df is True and fam == "VJ" and interp == "onsite_direct")
                        if not keep:
                            continue
                    states.append({"mol": mol, "nspin": nspin, "fam": fam, "sl": sl, "interp": interp, "df": df})
    from mc import fixtures as F

    for st in states:
        natm = {"LiH": 2, "NH2": 3, "H2O": 3}[st["mol"]]
        for ia, x in itertools.product(range(natm), range(3)):
            cases.append(dict(st, kind="fd", atom=ia, comp=x, seed=seed))
        cases.append(dict(st, kind="sumrule", seed=seed))
    for fam in ("SDMX1", "VIJ+SDMX1"):
        for nspin in (1, 2):
            cases.append({"kind": "unsupported", "mol": "LiH", "nspin": nspin, "fam": fam, "sl": "npa", "interp": "onsite_direct", "df": False, "seed": seed})
    return cases


def case_label(c):
    return ";".join("%s=%s" % (k, c[k]) for k in c if k != "seed")


def _ks(case, coords=None, dm0=None):
    from pyscf import gto

    from mc import fixtures as F

    spec = F.MOLS[case["mol"]]
    mol0 = F.make_mol(case["mol"])
    if coords is None:
        coords = mol0.atom_coords()
    mol = gto.M(atom=[(mol0.atom_symbol(i), coords[i].tolist()) for i in range(mol0.natm)], basis=spec["basis"], spin=spec["spin"], unit="Bohr", verbose=0)
    st = F.feature_settings(case["fam"], slmode=case["sl"])
    ml = F.make_mlxc(st, evals=("RBF",), mode="SEP", seed=case["seed"])
    ks = F.make_ks(mol, ml, nspin=case["nspin"], atom_grid=(20, 50), lmax=4, xmix=0.5, xkernel="GGA_X_PBE", ckernel="GGA_C_PBE",
                   interpolator_type=case["interp"], df=case["df"])
    ks.conv_tol = 1e-12
    ks.conv_tol_grad = 1e-8
    ks.max_cycle = 150
    if dm0 is None and case["nspin"] == 2 and spec["spin"] != 0:
        ks.level_shift = 0.3  # open-shell start-up; has no effect on the converged solution
    e = ks.kernel(dm0=dm0)
    if dm0 is None and getattr(ks, "level_shift", 0):
        ks.level_shift = 0.0
        e = ks.kernel(dm0=ks.make_rdm1())
    return mol, ks, e


def _ref_coords(case):
    from mc import fixtures as F

    return F.make_mol(case["mol"]).atom_coords()


def run_fd(case):
    fails = []
    ck = ";".join("%s=%s" % (k, case[k]) for k in ("mol", "nspin", "fam", "sl", "interp", "df"))
    c0 = _ref_coords(case)
    mol, ks, e0 = _ks(case, c0)
    if not ks.converged:
        return {"fail": [{"key": "harness-scf-not-converged;" + ck, "confirm": False, "msg": "reference SCF did not converge"}], "evals": 1, "outcome": "noconv"}
    g = ks.nuc_grad_method()
    g.grid_response = True
    g.verbose = 0
    an = g.kernel()
    dm0 = ks.make_rdm1()
    ia, x = case["atom"], case["comp"]
    ds = []
    evals = 2
    for h in (2e-3, 1e-3):
        es = []
        for sgn in (1, -1):
            c = c0.copy()
            c[ia, x] += sgn * h
            _, k2, e = _ks(case, c, dm0=dm0)
            evals += 1
            if not k2.converged:
                return {"fail": [{"key": "harness-scf-not-converged;" + ck, "confirm": False, "msg": "displaced SCF did not converge"}], "evals": evals, "outcome": "noconv"}
            es.append(e)
        ds.append((es[0] - es[1]) / (2 * h))
    fd = (4 * ds[1] - ds[0]) / 3
    err = abs(fd - an[ia, x])
    wit = abs(ds[0] - ds[1])
    if wit > 2e-5:
        return {"fail": [{"key": "harness-fd-not-smooth;" + ck, "confirm": False, "msg": "finite differences not in the asymptotic regime (%.3e)" % wit}], "evals": evals, "outcome": "rough"}
    if not err <= TOL:
        fails.append({"key": "force!=dE/dR;" + ck, "msg": "analytic dE/dR[atom %d, %s] = %.9f but finite differences of the SCF energy give %.9f (diff %.3e, FD self-consistency %.1e)" % (
            ia, "xyz"[x], an[ia, x], fd, err, wit), "observed": float(an[ia, x]), "expected": float(fd)})
    return {"fail": fails, "evals": evals, "outcome": [ck, ia, x, float("%.7f" % an[ia, x])], "info": {"err": float(err), "fd_selfdiff": float(wit)}}


def run_sumrule(case):
    fails = []
    ck = ";".join("%s=%s" % (k, case[k]) for k in ("mol", "nspin", "fam", "sl", "interp", "df"))
    c0 = _ref_coords(case)
    mol, ks, e0 = _ks(case, c0)
    if not ks.converged:
        return {"fail": [{"key": "harness-scf-not-converged;" + ck, "confirm": False, "msg": "reference SCF did not converge"}], "evals": 1, "outcome": "noconv"}
    g = ks.nuc_grad_method()
    g.verbose = 0
    g.grid_response = True
    an = g.kernel()
    s = np.abs(an.sum(0)).max()
    if s > 1e-7:
        fails.append({"key": "forces-do-not-sum-to-zero;" + ck, "msg": "sum over atoms of the gradient = %s with grid response" % an.sum(0)})
    torque = np.cross(c0, an).sum(0)
    if np.abs(torque).max() > 1e-7:
        fails.append({"key": "nonzero-torque;" + ck, "msg": "net torque %s with grid response" % torque})
    g2 = ks.nuc_grad_method()
    g2.verbose = 0
    g2.grid_response = False
    an2 = g2.kernel()
    d = np.abs(an2 - an).max()
    # "to the accuracy allowed by the fixed-grid approximation": that accuracy is measured on the SAME molecule
    # and grid with PySCF's own PBE gradient (response on vs off); the CIDER gradient may deviate by 3x that
    from pyscf import dft

    ref = dft.RKS(mol) if case["nspin"] == 1 else dft.UKS(mol)
    ref.xc = "PBE"
    ref.grids.atom_grid = (20, 50)
    ref.grids.prune = None
    ref.verbose = 0
    ref.conv_tol = 1e-11
    ref.kernel(dm0=ks.make_rdm1())
    ga = ref.nuc_grad_method()
    ga.verbose = 0
    ga.grid_response = True
    gb = ref.nuc_grad_method()
    gb.verbose = 0
    gb.grid_response = False
    ra, rb = ga.kernel(), gb.kernel()
    dref = max(np.abs(ra - rb).max(), 1e-4)
    sref = max(np.abs(rb.sum(0)).max(), 1e-4)
    if d > 3 * dref:
        fails.append({"key": "noresponse-gradient;" + ck, "msg": "gradient without grid response differs from the full-response gradient by %.3e (PBE on the same grid: %.3e)" % (d, dref)})
    if np.abs(an2.sum(0)).max() > 3 * sref:
        fails.append({"key": "noresponse-sumrule;" + ck, "msg": "fixed-grid forces sum to %s (PBE on the same grid: %.3e)" % (an2.sum(0), sref)})
    return {"fail": fails, "evals": 3, "outcome": [ck, float("%.7f" % np.abs(an).sum())], "info": {"sum": float(s), "noresp_diff": float(d)}}


def run_unsupported(case):
    fails = []
    ck = "fam=%s;nspin=%d" % (case["fam"], case["nspin"])
    c0 = _ref_coords(case)
    mol, ks, e0 = _ks(case, c0)
    for gr in (True, False):
        g = ks.nuc_grad_method()
        g.verbose = 0
        g.grid_response = gr
        try:
            an = g.kernel()
            fails.append({"key": "unsupported-returns-numbers;%s;grid_response=%s" % (ck, gr), "msg": "gradient for an unsupported feature family (%s) returned numbers instead of raising NotImplementedError" % case["fam"]})
        except NotImplementedError:
            pass
    return {"fail": fails, "evals": 3, "outcome": [ck, "raises"]}


def run_case(case):
    if case["kind"] == "fd":
        return run_fd(case)
    if case["kind"] == "sumrule":
        return run_sumrule(case)
    return run_unsupported(case)
