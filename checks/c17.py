"""C17 - analytic nuclear gradients equal the derivative of the SCF energy.
Engine E1, DESIGN.md section 5/C17.

States  = {RKS, UKS} x density fitting x feature family (semilocal GGA / meta-GGA, NLDF j / ij / k)
          x interpolator x molecule, each split into one case per nuclear coordinate so that EVERY
          component of the force vector (a complete basis, 3 natm) is decided.
Oracle  = with grid_response=True: analytic force component vs Richardson-extrapolated central
          differences of converged SCF energies at displaced geometries (delta = 2e-3, 1e-3 Bohr),
          1e-6 Ha/Bohr; sum over atoms of the forces = 0 to 1e-7 (net torque: quadrature-level bound only);
          with grid_response=False: bound on the coarse discretisation (2e-2), and in the thorough
          tier agreement to 1.5e-3 on a refined discretisation (grid and auxiliary expansion); unsupported combinations (SDMX, fractional-Laplacian
          features, several density matrices) must raise NotImplementedError.
"""
import itertools

import numpy as np

ID = "C17"
VARIANT = "plain"
LEVEL_RULE = (
    "states = (method x density fitting x family x interpolator x molecule) x nuclear coordinate; each state compares one "
    "analytic force component with Richardson differences of converged SCF energies; outcome = rounded force component"
)
ASSUMPTIONS = [
    "small molecules (LiH, NH2 doublet, H2O in sto-3g; OH is avoided because its degenerate pi hole makes the UKS SCF oscillate), coarse grids (the identity holds on any grid when grid response is included)",
    "SCF converged to 1e-12; finite-difference steps 2e-3 / 1e-3 Bohr; an SCF that does not converge is a harness error, not a violation",
    "synthetic mapped models (C squared-exponential evaluator, SEP mode, LDA exchange baseline) mixed with PBE",
]
TOL = 1e-6


def initial_cases(tier, seed):
    cases = []
    quick = tier == "quick"
    states = []
    for mol, nspin in (("LiH", 1), ("LiH", 2), ("NH2", 2)) + ((("H2O", 1),) if not quick else ()):
        # VI / VIJ2: several l=1 (vector) feature specs, whose force terms are indexed separately from the l=0 ones
        for fam, sl in (("SL", "npa"), ("SL", "np"), ("VJ", "npa"), ("VIJ", "npa"), ("VK", "npa"), ("VIJ", "np"), ("VI", "npa"), ("VIJ2", "npa")):
            for interp in ("onsite_direct", "onsite_spline"):
                for df in (False, True):
                    if fam == "SL" and interp != "onsite_direct":
                        continue
                    if quick:
                        keep = (mol == "LiH" and df is False and (fam, sl, interp) in (("SL", "npa", "onsite_direct"), ("VIJ", "npa", "onsite_direct"), ("VK", "npa", "onsite_spline"))) or \
                               (mol == "NH2" and fam == "VIJ" and sl == "npa" and interp == "onsite_direct" and df is False) or \
                               (mol == "LiH" and nspin == 1 and df is True and fam == "VJ" and interp == "onsite_direct") or \
                               (mol == "LiH" and nspin == 1 and df is False and (fam, interp) in (("VI", "onsite_direct"), ("VIJ2", "onsite_spline")))
                        if not keep:
                            continue
                    states.append({"mol": mol, "nspin": nspin, "fam": fam, "sl": sl, "interp": interp, "df": df})
    from mc import fixtures as F

    for st in states:
        natm = {"LiH": 2, "NH2": 3, "H2O": 3}[st["mol"]]
        for ia, x in itertools.product(range(natm), range(3)):
            cases.append(dict(st, kind="fd", atom=ia, comp=x, seed=seed))
        cases.append(dict(st, kind="sumrule", seed=seed, refine=(not quick and st["mol"] == "LiH")))
    # exact relations that hold for BOTH gradient variants (with and without grid response), whatever the discretisation:
    # exchanging the spin labels of a polarised solution leaves the forces unchanged; a closed-shell solution evaluated
    # through the unrestricted gradient gives the restricted forces
    spin_states = [("NH2", "VIJ", "npa", "onsite_direct"), ("NH2", "VK", "npa", "onsite_spline"), ("NH2", "SL", "npa", "onsite_direct")]
    if not quick:
        spin_states += [("NH2", "VJ", "np", "onsite_direct"), ("NH2", "VIJ", "np", "onsite_spline"), ("NH2", "SL", "np", "onsite_direct")]
    for mol, fam, sl, interp in spin_states:
        for df in ((False,) if quick else (False, True)):
            cases.append({"kind": "spinsym", "mol": mol, "nspin": 2, "fam": fam, "sl": sl, "interp": interp, "df": df, "seed": seed})
    for fam, sl, interp in (("VIJ", "npa", "onsite_direct"), ("VK", "npa", "onsite_spline")) + ((("VJ", "np", "onsite_direct"),) if not quick else ()):
        cases.append({"kind": "closedshell", "mol": "LiH", "nspin": 1, "fam": fam, "sl": sl, "interp": interp, "df": False, "seed": seed})
    # the forces do not depend on how the grid is cut into blocks (memory budget): both gradient variants, RKS and UKS
    for mol, nspin, fam, sl, interp in (("LiH", 1, "VIJ", "npa", "onsite_direct"), ("NH2", 2, "VJ", "npa", "onsite_direct"), ("LiH", 1, "VK", "npa", "onsite_spline")) + (
            (("LiH", 1, "SL", "npa", "onsite_direct"), ("NH2", 2, "VIJ", "np", "onsite_spline"), ("LiH", 2, "VK", "npa", "onsite_direct")) if not quick else ()):
        cases.append({"kind": "blocks", "mol": mol, "nspin": nspin, "fam": fam, "sl": sl, "interp": interp, "df": False, "seed": seed})
    for fam in ("SDMX1", "VIJ+SDMX1"):
        for nspin in (1, 2):
            cases.append({"kind": "unsupported", "mol": "LiH", "nspin": nspin, "fam": fam, "sl": "npa", "interp": "onsite_direct", "df": False, "seed": seed})
    return cases


def case_label(c):
    return ";".join("%s=%s" % (k, c[k]) for k in c if k != "seed")


_OFFSET = {}


def _ks(case, coords=None, dm0=None):
    """Converged KS object.  A few seeded synthetic models make the SCF of a small molecule hop between two states 0.6 Ha
    apart (no amount of damping helps): the first model seed of the fixed sequence seed, seed + 1000, seed + 2000 whose
    reference-geometry SCF converges is used for every calculation of the case (same process)."""
    key = tuple((k, str(case[k])) for k in ("mol", "nspin", "fam", "sl", "interp", "df", "seed"))
    if key in _OFFSET:
        return _ks1(dict(case, seed=case["seed"] + _OFFSET[key]), coords, dm0)
    out = None
    for off in (0, 1000, 2000):
        out = _ks1(dict(case, seed=case["seed"] + off), coords, dm0)
        if out[1].converged:
            _OFFSET[key] = off
            return out
    _OFFSET[key] = 0
    return out


def _ks1(case, coords=None, dm0=None):
    from pyscf import gto

    from mc import fixtures as F

    spec = F.MOLS[case["mol"]]
    mol0 = F.make_mol(case["mol"])
    if coords is None:
        coords = mol0.atom_coords()
    mol = gto.M(atom=[(mol0.atom_symbol(i), coords[i].tolist()) for i in range(mol0.natm)], basis=spec["basis"], spin=spec["spin"], unit="Bohr", verbose=0)
    st = F.feature_settings(case["fam"], slmode=case["sl"])
    ml = F.make_mlxc(st, evals=("RBF",), mode="SEP", seed=case["seed"])
    ks = F.make_ks(mol, ml, nspin=case["nspin"], atom_grid=(20, 50), lmax=4, xmix=0.5, xkernel="GGA_X_PBE", ckernel="GGA_C_PBE",
                   interpolator_type=case["interp"], df=case["df"])
    ks.conv_tol = 1e-12
    ks.conv_tol_grad = 1e-8
    ks.max_cycle = 150
    if dm0 is None and case["nspin"] == 2 and spec["spin"] != 0:
        ks.level_shift = 0.3  # open-shell start-up; has no effect on the converged solution
    e = ks.kernel(dm0=dm0)
    if dm0 is None and getattr(ks, "level_shift", 0):
        ks.level_shift = 0.0
        e = ks.kernel(dm0=ks.make_rdm1())
    if not ks.converged:
        # some seeded models make plain DIIS oscillate: damped, level-shifted restart, then a clean final pass
        ks.level_shift = 0.5
        ks.damp = 0.4
        ks.max_cycle = 400
        ks.kernel(dm0=ks.make_rdm1())
        ks.level_shift = 0.0
        ks.damp = 0.0
        ks.max_cycle = 150
        e = ks.kernel(dm0=ks.make_rdm1())
    return mol, ks, e


def _ref_coords(case):
    from mc import fixtures as F

    return F.make_mol(case["mol"]).atom_coords()


def run_fd(case):
    fails = []
    ck = ";".join("%s=%s" % (k, case[k]) for k in ("mol", "nspin", "fam", "sl", "interp", "df"))
    c0 = _ref_coords(case)
    mol, ks, e0 = _ks(case, c0)
    if not ks.converged:
        return {"fail": [{"key": "harness-scf-not-converged;" + ck, "confirm": False, "msg": "reference SCF did not converge"}], "evals": 1, "outcome": "noconv"}
    g = ks.nuc_grad_method()
    g.grid_response = True
    g.verbose = 0
    an = g.kernel()
    dm0 = ks.make_rdm1()
    ia, x = case["atom"], case["comp"]
    ds = []
    evals = 2
    for h in (2e-3, 1e-3):
        es = []
        for sgn in (1, -1):
            c = c0.copy()
            c[ia, x] += sgn * h
            _, k2, e = _ks(case, c, dm0=dm0)
            evals += 1
            if not k2.converged:
                return {"fail": [{"key": "harness-scf-not-converged;" + ck, "confirm": False, "msg": "displaced SCF did not converge"}], "evals": evals, "outcome": "noconv"}
            es.append(e)
        ds.append((es[0] - es[1]) / (2 * h))
    fd = (4 * ds[1] - ds[0]) / 3
    err = abs(fd - an[ia, x])
    wit = abs(ds[0] - ds[1])
    if wit > 2e-5:
        return {"fail": [{"key": "harness-fd-not-smooth;" + ck, "confirm": False, "msg": "finite differences not in the asymptotic regime (%.3e)" % wit}], "evals": evals, "outcome": "rough"}
    if not err <= TOL:
        fails.append({"key": "force!=dE/dR;" + ck, "msg": "analytic dE/dR[atom %d, %s] = %.9f but finite differences of the SCF energy give %.9f (diff %.3e, FD self-consistency %.1e)" % (
            ia, "xyz"[x], an[ia, x], fd, err, wit), "observed": float(an[ia, x]), "expected": float(fd)})
    return {"fail": fails, "evals": evals, "outcome": [ck, ia, x, float("%.7f" % an[ia, x])], "info": {"err": float(err), "fd_selfdiff": float(wit)}}


def run_sumrule(case):
    from mc import fixtures as F

    fails = []
    ck = ";".join("%s=%s" % (k, case[k]) for k in ("mol", "nspin", "fam", "sl", "interp", "df"))
    c0 = _ref_coords(case)
    mol, ks, e0 = _ks(case, c0)
    if not ks.converged:
        return {"fail": [{"key": "harness-scf-not-converged;" + ck, "confirm": False, "msg": "reference SCF did not converge"}], "evals": 1, "outcome": "noconv"}
    g = ks.nuc_grad_method()
    g.verbose = 0
    g.grid_response = True
    an = g.kernel()
    s = np.abs(an.sum(0)).max()
    if s > 1e-7:
        fails.append({"key": "forces-do-not-sum-to-zero;" + ck, "msg": "sum over atoms of the gradient = %s with grid response" % an.sum(0)})
    torque = np.cross(c0, an).sum(0)
    # translations move the atom-centred grids with the molecule (sum of forces = 0 exactly); rotations do not rotate the
    # Lebedev orientations, so the energy is rotationally invariant only to quadrature accuracy and the net torque is of
    # that size for a molecule without symmetry (measured 1.8e-3 for the asymmetric H2O on the (20,50) grid; exactly 0 by
    # symmetry for LiH and NH2): gross-error bound only
    if np.abs(torque).max() > 2e-2:
        fails.append({"key": "nonzero-torque;" + ck, "msg": "net torque %s with grid response" % torque})
    g2 = ks.nuc_grad_method()
    g2.verbose = 0
    g2.grid_response = False
    an2 = g2.kernel()
    d = np.abs(an2 - an).max()
    s2 = np.abs(an2.sum(0)).max()
    # "to the accuracy allowed by the fixed-grid approximation".  That accuracy is a property of the discretisation
    # (integration grid AND, for nonlocal features, the atom-centred auxiliary expansion whose partition moves with
    # the atoms), not of PySCF's PBE on the same grid: measured over seeds 0, 1, 3 on the coarse settings used here the
    # two gradients differ by <= 6.9e-3 and the fixed-grid forces sum to <= 5.9e-3 (semilocal part alone: 1e-3).
    # Quick tier: bound 2e-2 on the coarse settings.  Thorough tier: a refined discretisation must reach 1.5e-3.
    # The sharp statements about the no-response variant are the spin relations of run_spinsym / run_closedshell.
    if d > 2e-2:
        fails.append({"key": "noresponse-gradient;" + ck, "msg": "gradient without grid response differs from the full-response gradient by %.3e on the coarse discretisation (measured <= 6.9e-3)" % d})
    if s2 > 2e-2:
        fails.append({"key": "noresponse-sumrule;" + ck, "msg": "fixed-grid forces sum to %s on the coarse discretisation (measured <= 5.9e-3)" % an2.sum(0)})
    evals = 3
    info = {"sum": float(s), "noresp_diff": float(d), "noresp_sum": float(s2)}
    if case.get("refine") and case["fam"] != "VK":
        orig = F.make_ks

        def fine(*a, **k):
            k["atom_grid"] = (50, 194)
            k["lmax"] = 8
            k["nldf_kwargs"] = dict(aux_lambd=1.6, nrad=200)
            return orig(*a, **k)

        F.make_ks = fine
        try:
            _, ksf, _ = _ks(case, c0)
        finally:
            F.make_ks = orig
        if not ksf.converged:
            return {"fail": [{"key": "harness-scf-not-converged;" + ck, "confirm": False, "msg": "refined SCF did not converge"}], "evals": evals, "outcome": "noconv"}
        ga = ksf.nuc_grad_method()
        ga.verbose = 0
        ga.grid_response = True
        gb = ksf.nuc_grad_method()
        gb.verbose = 0
        gb.grid_response = False
        ra, rb = ga.kernel(), gb.kernel()
        df, sf = np.abs(ra - rb).max(), np.abs(rb.sum(0)).max()
        evals += 3
        info.update(noresp_diff_fine=float(df), noresp_sum_fine=float(sf))
        if df > 1.5e-3:
            fails.append({"key": "noresponse-gradient-refined;" + ck, "msg": "on the refined discretisation the gradient without grid response still differs from the full-response gradient by %.3e (coarse %.3e)" % (df, d)})
        if sf > 1.5e-3:
            fails.append({"key": "noresponse-sumrule-refined;" + ck, "msg": "on the refined discretisation the fixed-grid forces still sum to %.3e (coarse %.3e)" % (sf, s2)})
    return {"fail": fails, "evals": evals, "outcome": [ck, float("%.7f" % np.abs(an).sum())], "info": info}


def _grads(ks):
    out = []
    for gr in (True, False):
        g = ks.nuc_grad_method()
        g.verbose = 0
        g.grid_response = gr
        out.append(g.kernel())
    return out


def run_spinsym(case):
    import copy

    fails = []
    ck = ";".join("%s=%s" % (k, case[k]) for k in ("mol", "nspin", "fam", "sl", "interp", "df"))
    mol, ks, e0 = _ks(case, _ref_coords(case))
    if not ks.converged:
        return {"fail": [{"key": "harness-scf-not-converged;" + ck, "confirm": False, "msg": "SCF did not converge"}], "evals": 1, "outcome": "noconv"}
    g1 = _grads(ks)
    # the same solution with the spin labels exchanged (no new SCF: orbitals, occupations and energies are swapped)
    ks.mo_coeff = np.array([ks.mo_coeff[1], ks.mo_coeff[0]])
    ks.mo_occ = np.array([ks.mo_occ[1], ks.mo_occ[0]])
    ks.mo_energy = np.array([ks.mo_energy[1], ks.mo_energy[0]])
    g2 = _grads(ks)
    worst = 0.0
    for name, a, b in (("with grid response", g1[0], g2[0]), ("without grid response", g1[1], g2[1])):
        d = float(np.abs(a - b).max())
        worst = max(worst, d)
        if d > 1e-8:
            fails.append({"key": "spin-swap-forces;%s;%s" % (name.split()[0], ck), "msg": "exchanging the spin channels changes the forces %s by %.3e Ha/Bohr" % (name, d)})
    pol = float(np.abs(g1[0]).max())
    return {"fail": fails, "evals": 5, "outcome": ["spinsym", ck, float("%.7f" % pol)], "info": {"swap_diff": worst}}


def run_blocks(case):
    """The XC part of the forces (both variants) does not depend on how the grid is cut into blocks.  The public driver
    never passes less than 2000 MB, so the layer functions it calls are driven directly with a tiny memory budget
    (PySCF's minimal block of 4 x BLKSIZE points; the grid has ~2000)."""
    from ciderpress.pyscf import rks_grad, uks_grad

    fails = []
    ck = ";".join("%s=%s" % (k, case[k]) for k in ("mol", "nspin", "fam", "sl", "interp", "df"))
    mol, ks, e0 = _ks(case, _ref_coords(case))
    if not ks.converged:
        return {"fail": [{"key": "harness-scf-not-converged;" + ck, "confirm": False, "msg": "SCF did not converge"}], "evals": 1, "outcome": "noconv"}
    ni = ks._numint
    dm = ks.make_rdm1()
    mod = rks_grad if case["nspin"] == 1 else uks_grad
    nldf = ni.has_nldf
    fns = [("without", mod.get_vxc_nldf if nldf else mod.get_vxc), ("with", mod.get_vxc_nldf_full_response if nldf else mod.get_vxc_full_response)]
    worst = 0.0
    evals = 0
    for name, fn in fns:
        out = []
        for mem in (2000, 0.01):
            ks.grids.build(with_non0tab=True) if False else None
            exc, vmat = fn(ni, mol, ks.grids, ks.xc, dm, max_memory=mem, verbose=0)
            out.append((None if exc is None else np.array(exc, copy=True), np.array(vmat, copy=True)))
            evals += 1
        d = float(np.abs(out[0][1] - out[1][1]).max())
        if out[0][0] is not None and out[1][0] is not None:
            d = max(d, float(np.abs(out[0][0] - out[1][0]).max()))
        worst = max(worst, d)
        if d > 1e-9 * (1 + float(np.abs(out[0][1]).max())):
            fails.append({"key": "block-size-dependent-forces;%s;%s" % (name, ck),
                          "msg": "the XC gradient terms %s grid response change by %.3e when the grid is processed in minimal blocks instead of one (%d points)" % (name, d, ks.grids.weights.size)})
    return {"fail": fails, "evals": evals, "outcome": ["blocks", ck, float("%.7f" % np.abs(out[0][1]).max())], "info": {"diff": worst, "ngrids": int(ks.grids.weights.size)}}


def run_closedshell(case):
    fails = []
    ck = ";".join("%s=%s" % (k, case[k]) for k in ("mol", "fam", "sl", "interp", "df"))
    mol, ks, e0 = _ks(case, _ref_coords(case))
    if not ks.converged:
        return {"fail": [{"key": "harness-scf-not-converged;" + ck, "confirm": False, "msg": "SCF did not converge"}], "evals": 1, "outcome": "noconv"}
    gr = _grads(ks)
    c2 = dict(case, nspin=2)
    dm = ks.make_rdm1()
    mol2, ku, _ = _ks(c2, _ref_coords(case), dm0=np.array([0.5 * dm, 0.5 * dm]))
    if not ku.converged:
        return {"fail": [{"key": "harness-scf-not-converged;" + ck, "confirm": False, "msg": "unrestricted SCF did not converge"}], "evals": 2, "outcome": "noconv"}
    # evaluate the unrestricted gradient AT the restricted solution
    ku.mo_coeff = np.array([ks.mo_coeff, ks.mo_coeff])
    ku.mo_occ = np.array([0.5 * ks.mo_occ, 0.5 * ks.mo_occ])
    ku.mo_energy = np.array([ks.mo_energy, ks.mo_energy])
    gu = _grads(ku)
    worst = 0.0
    for name, a, b in (("with grid response", gr[0], gu[0]), ("without grid response", gr[1], gu[1])):
        d = float(np.abs(a - b).max())
        worst = max(worst, d)
        if d > 1e-8:
            fails.append({"key": "closed-shell-forces;%s;%s" % (name.split()[0], ck), "msg": "closed-shell forces through the unrestricted gradient differ from the restricted ones %s by %.3e Ha/Bohr" % (name, d)})
    return {"fail": fails, "evals": 6, "outcome": ["closedshell", ck, float("%.7f" % np.abs(gr[0]).max())], "info": {"diff": worst}}


def run_unsupported(case):
    fails = []
    ck = "fam=%s;nspin=%d" % (case["fam"], case["nspin"])
    c0 = _ref_coords(case)
    mol, ks, e0 = _ks(case, c0)
    for gr in (True, False):
        g = ks.nuc_grad_method()
        g.verbose = 0
        g.grid_response = gr
        try:
            an = g.kernel()
            fails.append({"key": "unsupported-returns-numbers;%s;grid_response=%s" % (ck, gr), "msg": "gradient for an unsupported feature family (%s) returned numbers instead of raising NotImplementedError" % case["fam"]})
        except NotImplementedError:
            pass
    return {"fail": fails, "evals": 3, "outcome": [ck, "raises"]}


def run_case(case):
    if case["kind"] == "fd":
        return run_fd(case)
    if case["kind"] == "sumrule":
        return run_sumrule(case)
    if case["kind"] == "spinsym":
        return run_spinsym(case)
    if case["kind"] == "closedshell":
        return run_closedshell(case)
    if case["kind"] == "blocks":
        return run_blocks(case)
    return run_unsupported(case)
