"""C14 - saved models and feature lists reload to objects that evaluate identically.
Engine E2 (explicit-state search over provenance), DESIGN.md section 5/C14.

State      = (initial object, chain of save/load formats applied); the canonical key is
             (object id, hash of the reloaded object's own dict form) so that the search
             closes as soon as a cycle is a fixed point.
Transition = one save/load cycle in one format, performed on the real classes and real files.
Oracle     = after every transition: same type; bit-identical evaluation (value AND derivative)
             on the input lattice of C12/C04; the dict form is a fixed point after one cycle.
Negative   = every unknown code / missing key / unsupported extension or format string / file
             holding a non-model object must raise and never return an object.
"""
import itertools
import os
import tempfile

import numpy as np

ID = "C14"
VARIANT = "plain"
LEVEL_RULE = (
    "states = (object, format chain) reached by BFS to depth 3 from initial objects that enumerate every registered "
    "feature-map class x parameter alphabet, every serialisable evaluator, whole MappedXC/MappedXC2 models and analyzers; "
    "outcome = evaluation hash; negative alphabet enumerated separately; distinct = distinct evaluation hashes"
)
ASSUMPTIONS = [
    "files written by this version of the package only",
    "an object whose save routine raises is counted as 'format not supported for this object' (allowed by the property); only successful saves are required to reload identically",
    "ElectronAnalyzer is compared through its stored arrays, density matrix, orbital data, molecule and rebuilt grid (perform_full_analysis is not usable with the installed PySCF)",
]
DEPTH = 3


def _map_objects():
    from checks import c12

    classes = c12._classes()
    objs = {}
    for code, (names, doms, pgrid) in c12.SPEC.items():
        for ip, params in enumerate(pgrid()):
            if ip not in (0, len(pgrid()) - 1):
                continue
            assign = list(range(len(names)))
            objs["map:%s:%d" % (code, ip)] = (code, assign, params)
    return objs


FORMATS_MAP = ["dict", "fl-dict", "fl-yaml"]
FORMATS_EVAL = ["to_dict", "yaml"]
FORMATS_MODEL = ["yaml", "joblib", "yaml-explicit", "joblib-explicit"]
FORMATS_AN = ["hdf5", "dict"]

MODELS = {
    "model:SEP-RBF": dict(evals=("RBF",), mode="SEP", mul="LDA_X", add="ZERO", libxc=False, fam="VJ2"),
    "model:NPOL-mix": dict(evals=("Kernel", "Spline", "Linear"), mode="NPOL", mul="GGA_X_PBE", add="GGA_C_PBE", libxc=False, fam="VIJ"),
    "model:POL-spin": dict(evals=("SpinRBF",), mode="POL", mul="GGA_X_CHACHIYO", add="LDA_X", libxc=False, fam="SL"),
    "model:SEP-antisym": dict(evals=("AntisymRBF", "cRBF"), mode="SEP", mul="NLDA_X_DAMP", add="ZERO", libxc=False, fam="VJ2"),
    "model:x-SEP": dict(evals=("RBF",), mode="SEP", mul="GGA_X_PBE", add=None, libxc=True, fam="VJ2"),
    "model:x-NPOL": dict(evals=("RBF", "Spline"), mode="NPOL", mul="LDA_X", add="GGA_C_PBE", libxc=True, fam="SDMX"),
    "model:x-POL": dict(evals=("SpinRBF",), mode="POL", mul="MGGA_X_R2SCAN", add="SS_GGA_C_PBE", libxc=True, fam="VK"),
    "model:two-kernels": dict(evals=("RBF",), mode="SEP", mul="LDA_X", add="ZERO", libxc=False, fam="VIJ", nkernel=2),
}


def initial_cases(tier, seed):
    cases = []
    for oid in _map_objects():
        cases.append({"kind": "chain", "obj": oid, "chain": [], "seed": seed})
    for oid in ("eval:Spline", "eval:Spline1d"):
        cases.append({"kind": "chain", "obj": oid, "chain": [], "seed": seed})
    for oid in MODELS:
        cases.append({"kind": "chain", "obj": oid, "chain": [], "seed": seed})
    for oid in ("an:RHF", "an:UHF"):
        cases.append({"kind": "chain", "obj": oid, "chain": [], "seed": seed})
    for neg in ("unknown-code", "missing-key", "bad-extension", "bad-format", "non-model-yaml", "non-model-joblib",
                "fl-unknown-code", "none-code", "missing-file-format", "analyzer-bad-type"):
        cases.append({"kind": "neg", "what": neg, "seed": seed})
    cases.append({"kind": "table", "seed": seed})
    return cases


def case_label(c):
    return ";".join("%s=%s" % (k, c[k]) for k in c if k != "seed")


def _formats(oid):
    if oid.startswith("map:"):
        return FORMATS_MAP
    if oid.startswith("eval:"):
        return FORMATS_EVAL
    if oid.startswith("model:"):
        return FORMATS_MODEL
    return FORMATS_AN


def _make(oid, seed):
    from mc import fixtures as F

    if oid.startswith("map:"):
        from checks import c12

        code, assign, params = _map_objects()[oid]
        return c12._make(c12._classes()[code], code, assign, params)
    if oid.startswith("eval:"):
        from checks import c04

        fl = F.feature_list_for(c04._settings(), seed)
        rng = np.random.RandomState(3 + seed)
        if oid == "eval:Spline":
            return F.make_spline_evaluator(fl, rng)
        return F.make_spline_evaluator(fl, rng, sizes=(7, 3, 3))
    if oid.startswith("model:"):
        kw = dict(MODELS[oid])
        st = F.feature_settings(kw.pop("fam"))
        return F.make_mlxc(st, seed=seed, **kw)
    from ciderpress.pyscf import analyzers as A

    if oid == "an:RHF":
        mol = F.make_mol("HF")
        dm = F.make_dm(mol, "D1", seed)
        an = A.RHFAnalyzer(mol, dm, grids_level=0, mo_occ=np.array([2.0] * 5 + [0.0]), mo_coeff=F.lowdin(mol), mo_energy=np.arange(6.0))
    else:
        mol = F.make_mol("OH")
        d1, d2 = F.make_dm(mol, "D1", seed), F.make_dm(mol, "D2", seed)
        an = A.UHFAnalyzer(mol, np.array([0.55 * d1, 0.45 * d2]), grids_level=0)
    an.set("ex_energy_density", np.linspace(-1, 0, 11))
    an.set("desc", np.arange(12.0).reshape(3, 4))
    return an


def _evaluate(oid, obj, seed):
    """A list of arrays that pins the object's evaluation; must be bit-identical after reload."""
    if oid.startswith("map:"):
        from checks import c12

        code, assign, params = _map_objects()[oid]
        x = c12._lattice(code, assign)
        y = np.zeros(x.shape[1])
        obj.fill_feat_(y, x.copy())
        d = np.zeros_like(x)
        obj.fill_deriv_(d, np.linspace(0.5, 1.5, x.shape[1]), x.copy())
        return [y, d, np.array(obj.bounds, dtype=float)]
    if oid.startswith("eval:"):
        from checks import c04

        from mc import fixtures as F

        fl = F.feature_list_for(c04._settings(), seed)
        lo, hi = F._bounds(fl)
        X = lo + (hi - lo) * (0.1 + 0.8 * np.random.RandomState(9).rand(40, fl.nfeat))
        r, d = obj(X.copy())
        return [r, d]
    if oid.startswith("model:"):
        from checks import c04

        out = []
        nf = obj.settings.nfeat
        for nspin in (1, 2):
            base = c04._lattice(nspin)  # 5 raw features
            X = np.concatenate([base] * (nf // 5 + 1), axis=1)[:, :nf].copy()
            X[:, 5:] = X[:, 5:] * 0.7 + 0.1
            if MODELS[oid]["libxc"]:
                rt = c04._rho_tuple(nspin, X.shape[2])
                r, d, v = obj(X.copy(), tuple(a.copy(order="F") for a in rt), rhocut=1e-3)
                out += [r, d] + [np.array(a) for a in v]
            else:
                r, d = obj(X.copy(), rhocut=1e-3)
                out += [r, d]
        out.append(np.array(obj.settings.get_feat_usps(), dtype=float))
        out.append(np.array(obj.settings.ueg_vector(), dtype=float))
        return out
    an = obj
    out = [np.asarray(an.dm), an.grids.coords, an.grids.weights, an.mol.atom_coords(), an.mol._env, an.mol._bas.astype(float)]
    for k in sorted(an.keys()):
        out.append(np.asarray(an.get(k)))
    for a in (an.mo_occ, an.mo_coeff, an.mo_energy):
        out.append(np.zeros(0) if a is None else np.asarray(a, dtype=float))
    return out


_DECOYS = {}


def _decoy(oid, seed):
    """A different object of the same kind; it is written to and loaded from the SAME path first, so that the cycle of
    the real object goes through 'overwrite an already loaded file' (a stale cache keyed by the path is then visible)."""
    k = (oid, seed)
    if k not in _DECOYS:
        if oid.startswith("map:"):
            from ciderpress.dft.transform_data import UMap

            _DECOYS[k] = UMap(0, 0.123)
        else:
            _DECOYS[k] = _make(oid, seed + 17)
    return _DECOYS[k]


def _cycle(oid, obj, fmt, tmp, seed=0, decoy=True):
    """One save/load cycle. Returns the reloaded object, or raises."""
    import joblib
    import yaml

    if decoy and fmt not in ("dict", "fl-dict", "to_dict", "as_dict"):
        try:
            _cycle(oid, _decoy(oid, seed), fmt, tmp, seed, decoy=False)
        except NotImplementedError:
            pass

    if oid.startswith("map:"):
        from ciderpress.dft.transform_data import FeatureList, FeatureNormalizer

        if fmt == "dict":
            return FeatureNormalizer.from_dict(obj.as_dict())
        if fmt == "fl-dict":
            return FeatureList.from_dict(FeatureList([obj]).as_dict())[0]
        f = os.path.join(tmp, "fl.yaml")
        FeatureList([obj]).dump(f)
        return FeatureList.load(f)[0]
    if oid.startswith("eval:"):
        if fmt == "to_dict":
            return type(obj).from_dict(obj.to_dict())
        f = os.path.join(tmp, "ev.yaml")
        obj.dump(f)
        return type(obj).load(f)
    if oid.startswith("model:"):
        from ciderpress.dft.model_utils import load_cider_model

        if fmt.startswith("yaml"):
            f = os.path.join(tmp, "model.yaml" if fmt == "yaml" else "model.dat")
            with open(f, "w") as fh:
                yaml.dump(obj, fh, Dumper=yaml.CDumper)
            return load_cider_model(f, None if fmt == "yaml" else "yaml")
        f = os.path.join(tmp, "model.joblib" if fmt == "joblib" else "model.bin")
        joblib.dump(obj, f)
        return load_cider_model(f, None if fmt == "joblib" else "joblib")
    from ciderpress.pyscf.analyzers import ElectronAnalyzer

    if fmt == "hdf5":
        f = os.path.join(tmp, "an.hdf5")
        obj.dump(f)
        return ElectronAnalyzer.load(f)
    return ElectronAnalyzer.from_dict(obj.as_dict())


def _dict_form(oid, obj):
    import hashlib
    import pickle

    if oid.startswith("map:"):
        d = obj.as_dict()
        return repr(sorted((k, repr(v)) for k, v in d.items()))
    if oid.startswith("eval:"):
        d = obj.to_dict()

        def canon(v):
            if isinstance(v, np.ndarray):
                return ("nd", v.shape, v.tolist())
            if isinstance(v, (list, tuple)):
                return [canon(x) for x in v]
            if isinstance(v, (np.floating, np.integer)):
                return v.item()
            return v

        return hashlib.sha1(pickle.dumps([(k, canon(d[k])) for k in sorted(d)])).hexdigest()
    return None


def _hash(arrs):
    import hashlib

    h = hashlib.sha1()
    for a in arrs:
        a = np.ascontiguousarray(a)
        h.update(str(a.shape).encode())
        h.update(a.tobytes())
    return h.hexdigest()[:16]


def run_chain(case):
    oid, chain, seed = case["obj"], case["chain"], case["seed"]
    fails = []
    orig = _make(oid, seed)
    ref = _evaluate(oid, orig, seed)
    obj = orig
    ck = "obj=%s" % oid.split(":")[0] + ":" + oid.split(":")[1]
    evals = 1
    unsupported = False
    dict_forms = [_dict_form(oid, orig)]
    with tempfile.TemporaryDirectory(prefix="c14-") as tmp:
        for depth, fmt in enumerate(chain):
            try:
                new = _cycle(oid, obj, fmt, tmp, seed)
            except NotImplementedError:
                unsupported = True
                break
            except Exception as e:
                fails.append({"key": "cycle-raises;%s;fmt=%s;%s" % (ck, fmt, type(e).__name__),
                              "msg": "save/load of %s through %s raised %s: %s (chain %s)" % (oid, fmt, type(e).__name__, str(e)[:200], chain)})
                unsupported = True
                break
            evals += 1
            if type(new) is not type(obj):
                fails.append({"key": "type-changed;%s;fmt=%s" % (ck, fmt), "msg": "reloaded object has type %s, original %s" % (type(new).__name__, type(obj).__name__)})
            got = _evaluate(oid, new, seed)
            same = len(got) == len(ref) and all(np.asarray(a).shape == np.asarray(b).shape and np.array_equal(np.asarray(a), np.asarray(b), equal_nan=True) for a, b in zip(ref, got))
            if not same:
                worst = max([float(np.abs(np.asarray(a, float) - np.asarray(b, float)).max()) if np.asarray(a).shape == np.asarray(b).shape and np.asarray(a).size else float("inf")
                             for a, b in zip(ref, got)] + [0.0])
                fails.append({"key": "evaluates-differently;%s;fmt=%s" % (ck, fmt),
                              "msg": "object reloaded through %s (chain %s) does not evaluate bit-identically: max diff %.3e" % (fmt, chain[:depth + 1], worst)})
            dict_forms.append(_dict_form(oid, new))
            obj = new
    if len(dict_forms) >= 3 and dict_forms[1] is not None and dict_forms[1] != dict_forms[2]:
        fails.append({"key": "dict-not-fixed-point;%s" % ck, "msg": "dict form keeps changing after the first save/load cycle"})
    children = []
    state = "%s|%s|%s" % (oid, dict_forms[-1], _hash(_evaluate(oid, obj, seed)) if not unsupported else "unsupported:" + ",".join(chain))
    if len(chain) < DEPTH and not unsupported and not fails:
        for fmt in _formats(oid):
            children.append({"kind": "chain", "obj": oid, "chain": chain + [fmt], "seed": seed})
    return {"fail": fails, "evals": evals, "edges": len(chain), "outcome": [oid, _hash(ref)], "children": children,
            "state": state if chain else None, "info": {"unsupported": unsupported}}


def run_neg(case):
    import joblib
    import yaml

    from ciderpress.dft.model_utils import load_cider_model
    from ciderpress.dft.transform_data import FeatureList, FeatureNormalizer, UMap

    what = case["what"]
    fails = []

    def must_raise(fn, desc):
        try:
            r = fn()
        except Exception:
            return
        fails.append({"key": "accepted;%s" % what, "msg": "%s returned %r instead of raising" % (desc, type(r).__name__)})

    with tempfile.TemporaryDirectory(prefix="c14n-") as tmp:
        if what == "unknown-code":
            for code in ("Q", "u", "", "UU", "Omega2", 7):
                must_raise(lambda: FeatureNormalizer.from_dict({"code": code, "i": 0, "gamma": 1.0}), "from_dict with unknown code %r" % (code,))
        elif what == "none-code":
            must_raise(lambda: FeatureNormalizer.from_dict({"code": None, "i": 0}), "from_dict with code None")
        elif what == "missing-key":
            d = UMap(0, 0.5).as_dict()
            for k in ("i", "gamma", "code"):
                dd = {a: b for a, b in d.items() if a != k}
                must_raise(lambda: FeatureNormalizer.from_dict(dd), "from_dict without key %s" % k)
        elif what == "fl-unknown-code":
            f = os.path.join(tmp, "x.yaml")
            with open(f, "w") as fh:
                yaml.dump({"feat_list": [{"code": "NOPE", "i": 0}]}, fh)
            must_raise(lambda: FeatureList.load(f), "FeatureList.load with unknown code")
        elif what in ("bad-extension", "bad-format", "missing-file-format"):
            from mc import fixtures as F

            ml = F.make_mlxc(F.feature_settings("SL"))
            good = os.path.join(tmp, "m.joblib")
            joblib.dump(ml, good)
            if what == "bad-extension":
                for ext in (".pkl", ".txt", ".yml", ".JOBLIB", ""):
                    f = os.path.join(tmp, "m" + ext)
                    joblib.dump(ml, f)
                    must_raise(lambda: load_cider_model(f, None), "load_cider_model of file with extension %r and no format" % ext)
            elif what == "bad-format":
                for fmt in ("json", "pickle", "YAML", "h5", ""):
                    must_raise(lambda: load_cider_model(good, fmt), "load_cider_model with format %r" % fmt)
            else:
                must_raise(lambda: load_cider_model(os.path.join(tmp, "does-not-exist.yaml"), None), "loading a missing file")
        elif what == "non-model-yaml":
            for k, obj in enumerate(({"a": 1}, [1, 2, 3], "string", None, UMap(0, 0.3))):
                f = os.path.join(tmp, "o%d.yaml" % k)
                with open(f, "w") as fh:
                    yaml.dump(obj, fh, Dumper=yaml.CDumper)
                must_raise(lambda: load_cider_model(f, None), "load_cider_model of a yaml file holding %s" % type(obj).__name__)
        elif what == "non-model-joblib":
            for k, obj in enumerate(({"a": 1}, [1, 2, 3], np.arange(3), None)):
                f = os.path.join(tmp, "o%d.joblib" % k)
                joblib.dump(obj, f)
                must_raise(lambda: load_cider_model(f, None), "load_cider_model of a joblib file holding %s" % type(obj).__name__)
            must_raise(lambda: load_cider_model({"not": "a model"}, None), "load_cider_model of a dict")
            must_raise(lambda: load_cider_model(3.0, None), "load_cider_model of a float")
        elif what == "analyzer-bad-type":
            from ciderpress.pyscf.analyzers import ElectronAnalyzer

            an = _make("an:RHF", 0)
            d = an.as_dict()
            d["atype"] = "ROHF-typo"
            must_raise(lambda: ElectronAnalyzer.from_dict(d), "ElectronAnalyzer.from_dict with unknown analyzer type")
    return {"fail": fails, "evals": 5, "outcome": ["neg", what, len(fails)]}


def run_table(case):
    """Every registered class has a usable code, the code table is injective, and every class
    writes the code it is registered under."""
    from checks import c12
    from ciderpress.dft import transform_data as T

    fails = []
    codes = {}
    for cls in T.ALL_CLASSES:
        code = cls.code
        if code is None or not isinstance(code, str):
            fails.append({"key": "table;no-code;%s" % cls.__name__, "msg": "%s is registered without a string code (registered under %r)" % (cls.__name__, code)})
        if T.ALL_CLASS_DICT.get(code) is not cls:
            fails.append({"key": "table;not-injective;%s" % cls.__name__, "msg": "code %r of %s maps to %s" % (code, cls.__name__, T.ALL_CLASS_DICT.get(code))})
        codes[cls.__name__] = code
    classes = c12._classes()
    for name, (names, doms, pgrid) in c12.SPEC.items():
        obj = c12._make(classes[name], name, list(range(len(names))), pgrid()[0])
        written = obj.as_dict().get("code")
        if T.ALL_CLASS_DICT.get(written) is not type(obj):
            fails.append({"key": "table;written-code;%s" % type(obj).__name__, "msg": "%s writes code %r which is registered for %s" % (type(obj).__name__, written, T.ALL_CLASS_DICT.get(written))})
    return {"fail": fails, "evals": len(T.ALL_CLASSES), "outcome": ["table", len(codes)]}


def run_case(case):
    if case["kind"] == "chain":
        return run_chain(case)
    if case["kind"] == "neg":
        return run_neg(case)
    return run_table(case)
