"""C12 - feature transforms and normalisers: derivatives match values.

Engine E1 (bounded-exhaustive configuration lattice), DESIGN.md section 5/C12.

States
  map  : (map class, index assignment into 5 raw features, coincident indices included) - for each, the
         whole parameter alphabet x raw-input lattice is run inside the state.
  pair : (class A, class B) sharing raw indices: additivity of fill_derivs_.
  norm : (slmode, normaliser class at every position of a FeatNormalizerList).
Oracles
  map  : fill_deriv_ (started from a non-zero dfdx, with a non-uniform dfdy) equals
         dfdy * d(fill_feat_)/dx for EVERY raw input (complex step, 1e-30; Richardson
         central differences for the one class whose value routine uses abs/clip).
  pair : fill_derivs_ of the list == sum of the single contributions == complex-step
         derivative of FeatureList.__call__.
  norm : Jacobian by complex step of get_normalized_feature_vector == full-matrix
         probing of get_derivative_of_normed_features (forward mode, columns)
         == full-matrix probing of get_derivative_wrt_unnormed_features (reverse
         mode, rows).  The equality of the last two is the transpose clause.
"""
import itertools

import numpy as np

ID = "C12"
VARIANT = None
LEVEL_RULE = (
    "states = (map class x index assignment incl. coincident indices) + (class pair) + (slmode x normaliser mix); "
    "every state runs the full parameter alphabet x raw-input lattice; a state is non-trivial if its "
    "Jacobian has a non-zero entry; distinct = distinct rounded Jacobian hashes"
)
ASSUMPTIONS = [
    "raw inputs restricted to the admissible domain of each map (non-negative where the map takes square roots, density > 1e-10 where it clamps)",
    "parameter values restricted to the alphabet gamma in {0.3, 1, 2.7}, (scale, center) in {(1,0),(2,1)} (two gamma slots use pairs of different values)",
    "complex-step differentiation is exact to rounding for analytic value routines; OmegaMap (abs/clip) is differentiated by Richardson-extrapolated central differences",
]
NRAW = 5
GAMMAS = [0.3, 1.0, 2.7]
SC = [(1.0, 0.0), (2.0, 1.0)]
TOL = 1e-11

# slot domains
POS = [0.0, 0.05, 0.7, 3.1]
REAL = [-1.3, 0.0, 0.4, 2.2]
RHO = [1e-11, 1e-3, 0.2, 1.7, 40.0]  # 1e-11: below the 1e-10 floor of the semilocal-aware maps
SIG = [0.0, 0.03, 1.1, 25.0]
TAU = [0.02, 0.6, 9.0]
POSS = [0.05, 0.7, 3.1]  # strictly positive (Omega: sqrt of inner term, n)

# class -> (index arg names, slot domains, parameter grid builder)
SPEC = {
    "L": (["i"], [REAL], lambda: [dict()]),
    "U": (["i"], [POS], lambda: [dict(gamma=g) for g in GAMMAS]),
    "T": (["i", "j"], [POS, POS], lambda: [dict()]),
    "V": (["i"], [POS], lambda: [dict(gamma=g, scale=s, center=c) for g in GAMMAS for s, c in SC]),
    "VZ": (["i"], [POS], lambda: [dict(gamma=g, scale=s, center=c) for g in GAMMAS for s, c in SC]),
    "V2": (["i", "j"], [[0.9, 1.5, 4.0], [0.0, 0.3, 0.8]], lambda: [dict()]),
    "V3": (["i", "j"], [POS, POS], lambda: [dict(gamma=g) for g in GAMMAS]),
    "V4": (["i", "j"], [REAL, REAL], lambda: [dict(gamma=g) for g in GAMMAS]),
    "W": (["i", "j", "k"], [POS, POS, REAL], lambda: [dict(gammai=a, gammaj=b) for a in GAMMAS for b in GAMMAS]),
    "X": (["i", "j", "k"], [POS, POS, REAL], lambda: [dict(gammai=a, gammaj=b) for a in GAMMAS for b in GAMMAS]),
    "Y": (["i", "j", "k", "l"], [POS, POS, POS, REAL],
          lambda: [dict(gammai=a, gammaj=b, gammak=c) for a in GAMMAS for b in GAMMAS for c in GAMMAS]),
    "Z": (["i"], [REAL], lambda: [dict(gamma=g, scale=s, center=c) for g in GAMMAS for s, c in SC]),
    "E": (["i"], [REAL], lambda: [dict(scale=s, center=c) for s, c in SC + [(0.4, -0.5)]]),
    "SU": (["i"], [REAL], lambda: [dict(gamma=g) for g in GAMMAS]),
    "SLN": (["i"], [RHO], lambda: [dict(gamma=g) for g in GAMMAS]),
    "SLX": (["i", "j"], [RHO, SIG], lambda: [dict(gamma=g) for g in GAMMAS]),
    "SLB": (["i", "j", "k"], [RHO, SIG, TAU], lambda: [dict()]),
    "SLT": (["i", "j"], [RHO, TAU], lambda: [dict()]),
    "SLTW": (["i", "j"], [RHO, SIG], lambda: [dict()]),
    "SLD": (["i", "j", "k"], [RHO, SIG, TAU], lambda: [dict()]),
    "Omega": (["i_n", "i_s", "i_alpha"], [POSS, POS, POS],
              lambda: [dict(c=c, B=B, C=C) for c in (0.1, 1.3) for B, C in ((0.5, 0.5), (1.2, 0.3))]),
}
# positional construction order
ORDER = {
    "V": ["gamma", "scale", "center"], "VZ": ["gamma", "scale", "center"],
    "Z": ["gamma", "scale", "center"], "E": ["scale", "center"],
}


def _classes():
    from ciderpress.dft import transform_data as td

    out = {}
    for cls in td.ALL_CLASSES:
        code = cls.code if cls.code is not None else cls.__name__.replace("Map", "")
        out[code] = cls
    return out


def _make(cls, code, assign, params):
    names = SPEC[code][0]
    kw = dict(zip(names, assign))
    kw.update(params)
    return cls(**kw)


def _lattice(code, assign, shift=0.0):
    doms = SPEC[code][1]
    pts = list(itertools.product(*doms))
    x = np.empty((NRAW, len(pts)))
    filler = np.array([0.37, 1.9, 0.11, 0.83, 2.4])
    x[:] = filler[:, None]
    for slot, idx in enumerate(assign):
        x[idx] = [p[slot] for p in pts]
    if code.startswith("SL") and code != "SLN" and len(set(assign)) == len(assign):
        # the point below the density floor carries gradient / kinetic-energy values scaled with the density (sigma ~ n^(8/3),
        # tau ~ n^(5/3)); an O(1) gradient at n = 1e-11 is not a density any basis set produces and only yields 1e30-sized
        # reduced variables whose rounding error exceeds every tolerance
        names = SPEC[code][0]
        rho = x[assign[0]]
        low = rho < 1e-6
        for slot, idx in enumerate(assign[1:], start=1):
            dom = SPEC[code][1][slot]
            pw = 8.0 / 3 if dom is SIG else 5.0 / 3
            x[idx] = np.where(low, x[idx] * (rho / 1e-3) ** pw, x[idx])
    return x


def _deriv_numeric(m, x, code):
    """d fill_feat_/dx_r for every raw input r: array (NRAW, nsamp)."""
    ns = x.shape[1]
    out = np.zeros((NRAW, ns))
    if code == "Omega":
        for r in range(NRAW):
            def f(h):
                xp = x.copy()
                xp[r] = xp[r] + h
                y = np.zeros(ns)
                m.fill_feat_(y, xp)
                return y
            d = []
            for h in (1e-4, 5e-5):
                d.append((f(h) - f(-h)) / (2 * h))
            out[r] = (4 * d[1] - d[0]) / 3
        return out, 2e-8
    h = 1e-30
    for r in range(NRAW):
        xp = x.astype(complex)
        xp[r] += 1j * h
        y = np.zeros(ns, dtype=complex)
        m.fill_feat_(y, xp)
        out[r] = y.imag / h
    return out, TOL


def initial_cases(tier, seed):
    cases = []
    for code, (names, doms, _) in SPEC.items():
        # every index assignment, including coincident indices (two slots reading the same raw feature) wherever the
        # two slots have the same admissible domain; the derivative w.r.t. a shared raw feature is the sum of the slots'
        for assign in itertools.product(range(NRAW), repeat=len(names)):
            ok = all(doms[a] is doms[b] for a in range(len(names)) for b in range(a) if assign[a] == assign[b])
            if ok:
                cases.append({"kind": "map", "cls": code, "assign": list(assign), "seed": seed})
    codes = list(SPEC)
    for a in codes:
        for b in codes:
            cases.append({"kind": "pair", "a": a, "b": b, "seed": seed})
    for slmode in ("npa", "nst", "np", "ns"):
        nsl = 3 if slmode in ("npa", "nst") else 2
        opts = ["N", "C", "D", "I", "G"]
        for head in itertools.product(opts, repeat=nsl):
            cases.append({"kind": "norm", "slmode": slmode, "head": list(head), "seed": seed})
    return cases


def case_label(case):
    if case["kind"] == "map":
        return "map %s indices %s" % (case["cls"], case["assign"])
    if case["kind"] == "pair":
        return "pair %s+%s" % (case["a"], case["b"])
    return "normalisers slmode=%s head=%s" % (case["slmode"], case["head"])


def _rnd(a):
    return [float("%.9e" % v) for v in np.asarray(a).ravel()[:64]]


def run_map(case):
    classes = _classes()
    code = case["cls"]
    cls = classes[code]
    assign = case["assign"]
    fails = []
    evals = 0
    nz = 0
    sig = []
    rng = np.random.RandomState(1000 + case["seed"])
    for ip, params in enumerate(SPEC[code][2]()):
        m = _make(cls, code, assign, params)
        x = _lattice(code, assign)
        ns = x.shape[1]
        dfdy = 0.3 + rng.rand(ns) * 1.7
        g0 = rng.randn(NRAW, ns)
        dfdx = g0.copy()
        xin = x.copy()
        m.fill_deriv_(dfdx, dfdy.copy(), xin)
        got = dfdx - g0
        num, tol = _deriv_numeric(m, x, code)
        want = num * dfdy
        evals += NRAW + 1
        # per sample point: the lattice mixes O(1) points with points at the density floor whose reduced variables are
        # ~1e25; a global scale would blind the comparison at the ordinary points
        scale = 1.0 + np.abs(want).max(0, keepdims=True)
        excess = np.abs(got - want) / (tol * scale)
        # values beyond 1e12 are compared to 1e-8 relative (complex powers of 1e-10 carry ~1e-10 relative rounding)
        excess = np.where(np.abs(want) > 1e12, np.abs(got - want) / (1e-8 * np.abs(want)), excess)
        err = np.abs(got - want).max()
        if not np.all(np.isfinite(got)) or excess.max() > 1:
            r, s = np.unravel_index(np.argmax(excess), got.shape)
            scale = float(scale[0, s])
            gtag = ";".join("%s=%s" % (k, params[k]) for k in sorted(params))
            fails.append({
                "key": "map=%s;deriv-vs-value;%s" % (code, gtag),
                "msg": "fill_deriv_ differs from d fill_feat_/dx: max err %.3e (tol %.1e) at raw input %d, x=%s" % (
                    err, tol * scale, r, x[:, s].tolist()),
                "observed": float(got[r, s]), "expected": float(want[r, s]), "params": params,
            })
        if not np.array_equal(xin, x):
            fails.append({"key": "map=%s;input-mutated" % code, "msg": "fill_deriv_ modified the raw feature array"})
        # statelessness: values evaluated at OTHER points (same sample count) between two derivative calls must not change
        # the derivative at x (spin-polarised evaluation fills the values of both channels before differentiating either)
        xo = np.ascontiguousarray(x[:, ::-1])  # the same admissible values, each at another sample index
        yo = np.zeros(ns)
        m.fill_feat_(yo, xo.copy())
        dfdx2 = g0.copy()
        m.fill_deriv_(dfdx2, dfdy.copy(), x.copy())
        evals += 2
        if not np.allclose(dfdx2, dfdx, rtol=1e-13, atol=0, equal_nan=True):
            fails.append({"key": "map=%s;derivative-depends-on-earlier-value-call" % code,
                          "msg": "fill_deriv_ at x returns something else after fill_feat_ was called at other points: max change %.3e" % np.nanmax(np.abs(dfdx2 - dfdx))})
        nz += int(np.count_nonzero(np.abs(want) > 1e-14) > 0)
        sig.append(_rnd(want[:, ::7]))
    return {"fail": fails, "evals": evals, "outcome": sig if nz else "trivial", "edges": 0,
            "info": {"params": len(SPEC[code][2]()), "lattice": int(x.shape[1])}}


def run_pair(case):
    from ciderpress.dft.transform_data import FeatureList

    classes = _classes()
    fails = []
    maps = []
    xs = None
    # both maps read raw indices 0.. so they overlap on purpose
    for tag in ("a", "b"):
        code = case[tag]
        params = SPEC[code][2]()[-1]
        n = len(SPEC[code][0])
        assign = list(range(n)) if tag == "a" else list(range(n))[::-1]
        maps.append((code, _make(classes[code], code, assign, params), assign))
    # common lattice: per raw index use the intersection-friendly positive values
    vals = [[0.9, 1.5], [0.05, 0.7], [0.3, 2.0], [0.4, 1.1], [0.6]]
    pts = list(itertools.product(*vals))
    x = np.array(pts).T.copy()
    ns = x.shape[1]
    rng = np.random.RandomState(7 + case["seed"])
    dfdy = 0.5 + rng.rand(2, ns)
    fl = FeatureList([m for _, m, _ in maps])
    tot = np.zeros((NRAW, ns))
    fl.fill_derivs_(tot, dfdy, x.copy())
    singles = np.zeros((NRAW, ns))
    for k, (code, m, _) in enumerate(maps):
        d = np.zeros((NRAW, ns))
        m.fill_deriv_(d, dfdy[k], x.copy())
        singles += d
    scale = 1 + np.abs(singles).max()
    if np.abs(tot - singles).max() > 1e-13 * scale:
        fails.append({"key": "pair=%s+%s;additivity" % (case["a"], case["b"]),
                      "msg": "fill_derivs_ of the list != sum of single contributions (%.3e)" % np.abs(tot - singles).max()})
    # numeric derivative of the list value
    num = np.zeros((NRAW, ns))
    tol = TOL
    if "Omega" in (case["a"], case["b"]):
        tol = 2e-8
        for r in range(NRAW):
            ds = []
            for h in (1e-4, 5e-5):
                xp, xm = x.copy(), x.copy()
                xp[r] += h
                xm[r] -= h
                ds.append(((fl(xp.T).T - fl(xm.T).T) * dfdy).sum(0) / (2 * h))
            num[r] = (4 * ds[1] - ds[0]) / 3
    else:
        for r in range(NRAW):
            xp = x.astype(complex)
            xp[r] += 1e-30j
            t = np.zeros((2, ns), dtype=complex)
            fl.fill_vals_(t, xp)
            num[r] = (t.imag / 1e-30 * dfdy).sum(0)
    if np.abs(tot - num).max() > tol * scale:
        fails.append({"key": "pair=%s+%s;deriv-vs-value" % (case["a"], case["b"]),
                      "msg": "list derivative differs from numeric derivative of list value (%.3e)" % np.abs(tot - num).max()})
    # __call__ agrees with fill_vals_
    t = np.zeros((2, ns))
    fl.fill_vals_(t, x.copy())
    if not np.array_equal(fl(x.T.copy()), t.T):
        fails.append({"key": "pair=%s+%s;call-vs-fill" % (case["a"], case["b"]), "msg": "FeatureList.__call__ != fill_vals_"})
    return {"fail": fails, "evals": 2 * NRAW + 4, "outcome": _rnd(num[:, ::5]), "edges": 1}


def _norm_obj(tag, variant):
    from ciderpress.dft import feat_normalizer as fn

    if tag == "N":
        return None
    if tag == "C":
        return fn.ConstantNormalizer([0.7, 2.5][variant])
    if tag == "D":
        return fn.DensityNormalizer([1.3, 0.6][variant], [-1.0 / 3, 0.75][variant])
    if tag == "I":
        return fn.InhomogeneityNormalizer([0.9, 2.0][variant], [0.4, 1.7][variant], [-1.5, 0.5][variant])
    if tag == "G":
        return fn.GeneralNormalizer([1.1, 0.5][variant], [0.6, 2.2][variant], [-2.0 / 3, 1.0 / 3][variant], [-1.0, 1.5][variant])
    raise ValueError(tag)


def run_norm(case):
    from ciderpress.dft.feat_normalizer import FeatNormalizerList

    slmode = case["slmode"]
    head = case["head"]
    nsl = len(head)
    fails = []
    evals = 0
    sig = []
    rho_a = [1e-3, 0.3, 2.5]
    grad_a = [0.0, 0.4, 3.0]
    tau_a = [0.1, 1.3]
    oth = [-0.7, 0.5, 2.0]
    for tail in itertools.product(["N", "C", "D", "I", "G"], repeat=2):
        mix = list(head) + list(tail)
        nfeat = len(mix)
        for variant in (0, 1):
            norms = [_norm_obj(t, variant) for t in mix]
            nl = FeatNormalizerList(norms, slmode)
            doms = [rho_a, grad_a] + ([tau_a] if nsl == 3 else []) + [oth, oth]
            pts = np.array(list(itertools.product(*doms))).T  # (nfeat, ns)
            ns = pts.shape[1]
            X = np.stack([pts, pts[:, ::-1] * 1.0 + 0.0])  # nspin = 2, second channel permuted samples
            # complex-step Jacobian J[s, i_out, j_in, samp]
            J = np.zeros((2, nfeat, nfeat, ns))
            for j in range(nfeat):
                Xc = X.astype(complex)
                Xc[:, j] += 1e-30j
                J[:, :, j] = nl.get_normalized_feature_vector(Xc).imag / 1e-30
            # forward mode: columns
            F = np.zeros_like(J)
            for s in range(2):
                for j in range(nfeat):
                    D = np.zeros((nfeat, ns))
                    D[j] = 1.0
                    F[s, :, j] = nl.get_derivative_of_normed_features(X[s].copy(), D)
            # reverse mode: rows
            R = np.zeros_like(J)
            for i in range(nfeat):
                df = np.zeros((2, nfeat, ns))
                df[:, i] = 1.0
                Xin = X.copy()
                R[:, i, :] = nl.get_derivative_wrt_unnormed_features(Xin, df)
                if not np.array_equal(Xin, X):
                    fails.append({"key": "norm;input-mutated;slmode=%s" % slmode, "msg": "reverse pass modified X0T"})
            evals += 3 * nfeat
            scale = 1 + np.abs(J).max()
            tag = "slmode=%s;mix=%s;v=%d" % (slmode, "".join(mix), variant)
            for name, A, B in (("forward-vs-value", F, J), ("reverse-vs-value", R, J), ("forward-vs-reverse-transpose", F, R)):
                err = np.abs(A - B).max()
                if not np.isfinite(err) or err > TOL * scale:
                    s, i, j, p = np.unravel_index(np.argmax(np.abs(A - B)), A.shape)
                    fails.append({
                        "key": "norm;%s;slmode=%s;out=%s;in=%d" % (name, slmode, mix[i], j if j < nsl else 9),
                        "msg": "%s: |diff| %.3e (tol %.1e) for %s, output feature %d (%s), input %d, spin %d, X=%s" % (
                            name, err, TOL * scale, tag, i, mix[i], j, s, X[s, :, p].tolist()),
                        "observed": float(A[s, i, j, p]), "expected": float(B[s, i, j, p]),
                    })
            sig.append(_rnd(J[0, :, :, ::40]))
    return {"fail": fails, "evals": evals, "outcome": sig, "edges": 25 * 2 * 3}


def run_case(case):
    if case["kind"] == "map":
        return run_map(case)
    if case["kind"] == "pair":
        return run_pair(case)
    return run_norm(case)
