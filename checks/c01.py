"""C01 - the XC matrix handed to PySCF is the exact derivative of the XC energy;
nelec is the grid integral of the density.   Engine E1, DESIGN.md section 5/C01.

State  = one point of the configuration lattice (molecule, feature family, semilocal
         mode, nspin, NLDF plan, interpolator, evaluator(s), spin mode, baselines,
         mixing, normalisation, rho_mult, grid, density matrix).
Oracle = for EVERY symmetric basis direction E_ij (per spin channel for UKS - a
         complete basis, so a passing state has vmat = grad E, not 'in the directions
         tried'):  tr(vmat E_ij)  vs  Richardson-extrapolated central difference of the
         returned excsum (h = 2e-4, 1e-4), guarded by a smoothness witness;
         vmat symmetric; nelec == sum_g w_g rho_g recomputed with PySCF's own eval_rho.
"""
import numpy as np

from mc.space import Space, tag

ID = "C01"
VARIANT = "plain"
LEVEL_RULE = (
    "states = points of the configuration lattice (deviations<=k from the base point plus full products of the "
    "family/spin/mode/evaluator sub-lattices); every state is probed in all nao(nao+1)/2 symmetric directions per spin; "
    "outcome = rounded (excsum, |vmat|) signature; distinct = distinct signatures"
)
ASSUMPTIONS = [
    "density matrices are positive definite (tau > tau_W strictly), so +-h perturbations stay in the smooth domain; idempotent matrices (D0) are covered through the smoothness witness only",
    "molecules with nao <= 7 (s/p shells; the base molecule has generally contracted shells); coarse but self-consistent numerical settings (aux_lambd 2.0, lmax 4, nrad 60) - the property is about consistency of E and vmat, not accuracy of features",
    "Richardson extrapolation of central differences with h = 2e-4 and 1e-4 (measured noise 1e-9, threshold 2e-7)",
    "libxc (PySCF's libxc.so) is linked for the semilocal parts",
]
TAU = 2e-7
TAU_FD = 2e-6

DIMS = [
    ("mol", ["LiHgc", "LiH", "HF", "H2O", "He", "Hed", "LiHgcp"]),  # base: generally contracted shells (NCTR = 2)
    ("fam", ["VIJ", "SL", "VJ", "VI", "VK", "SDMX", "VIJ+SDMX1", "VJ2", "VIJ2", "VI0", "SDMX1", "SDMXG", "SDMXG1",
             "SDMXFull", "SADM", "VK+SDMXG1", "FL", "FL0", "VJ+FL", "FL0+SDMX"]),
    ("sl", ["npa", "nst", "np", "ns"]),
    ("nspin", [1, 2]),
    ("plan", ["gaussian", "spline"]),
    ("interp", ["onsite_direct", "onsite_spline", "train_gen"]),
    ("ev", ["RBF", "cRBF", "Kernel", "Linear", "Spline", "RBF+Linear", "Kernel+Spline"]),
    ("mode", ["SEP", "NPOL", "POL"]),
    ("base", ["LDA_X/ZERO", "GGA_X_PBE/ZERO", "GGA_X_CHACHIYO/LDA_X", "ONE/GGA_X_PBE", "GGA_C_PBE/ZERO",
              "x:GGA_X_PBE/-", "x:LDA_X/GGA_C_PBE", "x:MGGA_X_R2SCAN/LDA_C_PW_MOD", "x:GGA_C_PBE/SS_GGA_C_PBE",
              "x:OS_GGA_C_PBE/-"]),
    ("mix", ["0.5|GGA_X_PBE|GGA_C_PBE|-", "1.0|-|-|-", "0.25|-|-|PBE", "0.6|LDA_X|-|-"]),
    ("norm", [True, False]),
    ("rho_mult", ["one", "expnt"]),
    ("grid", ["20,50,4", "15,26,4", "30,110,6", "20,50,4,nwchem"]),
    ("nk", [1, 2]),
    ("dm", ["D1", "D2"]),
]


def _valid(p):
    has_nldf = any(x.startswith("V") for x in p["fam"].split("+"))
    if not has_nldf and (p["plan"] != "gaussian" or p["interp"] != "onsite_direct" or p["rho_mult"] != "one"):
        return False
    if p["rho_mult"] == "expnt" and p["sl"] in ("np", "ns"):
        return False  # theta_params[2] does not exist at GGA level (recorded separately, C13/C18)
    if p["base"].startswith("x:") and p["mode"] == "SEP" and ("SS_" in p["base"] or "OS_" in p["base"] or "GGA_C" in p["base"]):
        return False  # correlation-type baselines are not separable
    if p["base"].startswith("GGA_C_PBE") and p["mode"] == "SEP":
        return False
    if p["base"].startswith("x:MGGA") and p["sl"] in ("np", "ns"):
        return False
    return True


SPACE = Space(DIMS, _valid)


def _tier_points(tier):
    pts = SPACE.deviations(1)
    pts += SPACE.product(["fam", "nspin"])
    pts += [p for p in SPACE.product(["fam"], fixed={"mol": "Hed"}) if "SDMX" in p["fam"] or p["fam"] in ("SADM", "VIJ")]
    # generally contracted p shell (the SDMX contractions index AOs by shell, contraction and m)
    pts += [p for p in SPACE.product(["fam"], fixed={"mol": "LiHgcp"}) if p["fam"] in ("SDMX", "SDMXG1", "SDMXFull", "SADM")]
    pts += SPACE.product(["mode", "nspin", "ev"], fixed={"fam": "VIJ"})
    pts += SPACE.product(["mode", "nspin", "base"], fixed={"fam": "SL"})
    pts += SPACE.product(["sl", "nspin", "fam"], fixed={})[:: 1 if tier == "thorough" else 3]
    if tier == "thorough":
        pts += SPACE.deviations(2)
        pts += SPACE.product(["fam", "nspin", "mode", "plan", "interp"])
        pts += SPACE.product(["fam", "nspin", "ev", "mode"], fixed={"mol": "HF"})
        pts += SPACE.product(["base", "mode", "nspin", "mix"], fixed={"fam": "VJ2"})
    return SPACE.dedupe(pts)


def initial_cases(tier, seed):
    return [dict(p, seed=seed) for p in _tier_points(tier)]


def case_label(case):
    return tag(case, SPACE.names)


def build(case):
    from mc import fixtures as F

    mol = F.make_mol(case["mol"])
    libxc = case["base"].startswith("x:")
    mul, add = case["base"].replace("x:", "").split("/")
    add = None if add == "-" else add
    if not libxc and add is None:
        add = "ZERO"
    st = F.feature_settings(case["fam"], slmode=case["sl"], rho_mult=case["rho_mult"], normalize=case["norm"])
    evs = tuple(case["ev"].split("+"))
    mode = case["mode"]
    if mode == "POL":
        evs = tuple("SpinRBF" if e in ("RBF", "cRBF") else e for e in evs)
        evs = tuple(e for e in evs if e == "SpinRBF") or ("SpinRBF",)
    ml = F.make_mlxc(st, evals=evs, mode=mode, mul=mul, add=add, seed=case["seed"], libxc=libxc, nkernel=case["nk"])
    xmix, xk, ck, xc = case["mix"].split("|")
    g = case["grid"].split(",")
    ks = F.make_ks(mol, ml, nspin=case["nspin"], atom_grid=(int(g[0]), int(g[1])), lmax=int(g[2]),
                   prune=None if len(g) < 4 else __import__("pyscf").dft.gen_grid.nwchem_prune,
                   xmix=float(xmix), xkernel=None if xk == "-" else xk, ckernel=None if ck == "-" else ck,
                   xc=None if xc == "-" else xc, plan_type=case["plan"], interpolator_type=case["interp"])
    d1 = F.make_dm(mol, case["dm"], case["seed"])
    d2 = F.make_dm(mol, "D2" if case["dm"] == "D1" else "D1", case["seed"])
    if case["nspin"] == 1:
        dm = d1
    else:
        dm = np.array([0.55 * d1, 0.45 * d2])
    if mul == "ONE":
        # A multiplicative baseline that is not density weighted gives the vacuum (rho ~ 1e-9, weights ~ 100) an O(1)
        # energy density for a synthetic model; there the 1e-16 regularisers of s^2 / alpha (which are not invariant
        # under spin scaling) and the cancellation between the rho, sigma and tau terms are amplified by ~1e9 and
        # finite differences leave their asymptotic regime.  The integration grid is an input: for these models the
        # points with rho(D1) < 1e-6 carry zero weight (same fixed mask for every density matrix of the state).
        from pyscf.dft import numint as _pn

        rho1 = _pn.eval_rho(mol, _pn.eval_ao(mol, ks.grids.coords, deriv=0), d1, xctype="LDA")
        w = np.array(ks.grids.weights, copy=True)
        w[rho1 < 1e-6] = 0.0
        ks.grids.weights = w
    return mol, ks, dm


def run_case(case):
    from pyscf.dft import numint as pnumint

    from mc import fixtures as F

    nspin = case["nspin"]
    fails = []
    cfg = tag(case, [n for n in SPACE.names if n != "dm"])
    if "FL" in case["fam"]:
        # models with fractional-Laplacian (orbital) features go through NLOFNumInt / NLDFNLOFNumInt; an unsupported
        # combination may be rejected with NotImplementedError, anything else raised on valid input is reported with the
        # exception type in the key (the derivative comparison below applies as soon as a matrix is returned)
        try:
            mol, ks, dm = build(case)
            nelec, exc, vmat = F.nr(ks, dm)
        except NotImplementedError:
            return {"fail": [], "evals": 1, "outcome": "rejected"}
        except Exception as e:
            return {"fail": [{"key": "nlof-integrator-raises;fam=%s;sl=%s;nspin=%d;%s" % (case["fam"], case["sl"], nspin, type(e).__name__),
                              "msg": "evaluating a model with fractional-Laplacian features (%s) raised %s: %s" % (cfg, type(e).__name__, str(e)[:200])}],
                    "evals": 1, "outcome": "raised"}
    else:
        mol, ks, dm = build(case)
        nelec, exc, vmat = F.nr(ks, dm)
    evals = 1
    vm = np.asarray(vmat)
    if not (np.all(np.isfinite(vm)) and np.isfinite(exc)):
        fails.append({"key": "nonfinite;" + cfg, "msg": "non-finite excsum or vmat"})
        return {"fail": fails, "evals": evals, "outcome": "nonfinite"}
    asym = np.abs(vm - np.swapaxes(vm, -1, -2)).max()
    if asym > 1e-11 * (1 + np.abs(vm).max()):
        fails.append({"key": "vmat-asymmetric;" + cfg, "msg": "vmat not symmetric: %.3e" % asym})
    # nelec oracle
    ao = pnumint.eval_ao(mol, ks.grids.coords, deriv=0)
    dms = [dm] if nspin == 1 else [dm[0], dm[1]]
    ne_ref = np.array([np.dot(pnumint.eval_rho(mol, ao, d, xctype="LDA"), ks.grids.weights) for d in dms])
    ne_got = np.atleast_1d(np.asarray(nelec, dtype=float))
    if ne_got.shape != ne_ref.shape or np.abs(ne_got - ne_ref).max() > 1e-10 * max(1.0, np.abs(ne_ref).max()):
        fails.append({"key": "nelec;" + cfg, "msg": "nelec %s != grid integral of the density %s" % (ne_got.tolist(), ne_ref.tolist())})
    # all symmetric directions
    scale = max(1.0, float(np.abs(vm).max()))
    worst = 0.0
    und = 0
    ndir = 0
    bad = None
    for (i, j), E in F.sym_basis(mol.nao):
        for s in range(nspin):
            ds = []
            for h in (2e-4, 1e-4):
                if nspin == 1:
                    ep = F.nr(ks, dm + h * E)[1]
                    em = F.nr(ks, dm - h * E)[1]
                else:
                    dp = dm.copy()
                    dp[s] += h * E
                    dq = dm.copy()
                    dq[s] -= h * E
                    ep = F.nr(ks, dp)[1]
                    em = F.nr(ks, dq)[1]
                evals += 2
                ds.append((ep - em) / (2 * h))
            ndir += 1
            if not np.isfinite(ds[0]) or not np.isfinite(ds[1]):
                fails.append({"key": "nonfinite-perturbed;" + cfg, "msg": "non-finite energy at perturbed density matrix"})
                continue
            if abs(ds[0] - ds[1]) > TAU_FD * scale:
                und += 1
                continue
            rich = (4 * ds[1] - ds[0]) / 3
            an = float((vm * E).sum()) if nspin == 1 else float((vm[s] * E).sum())
            err = abs(rich - an)
            if err > TAU * scale:
                # a candidate failure is re-decided with a third step: if the two Richardson estimates disagree by
                # more than half the tolerance the finite differences are not in their asymptotic regime for this
                # direction (huge feature sensitivities in the density tail) and the direction is undecided
                h3 = 5e-5
                if nspin == 1:
                    d3 = (F.nr(ks, dm + h3 * E)[1] - F.nr(ks, dm - h3 * E)[1]) / (2 * h3)
                else:
                    dp = dm.copy()
                    dp[s] += h3 * E
                    dq = dm.copy()
                    dq[s] -= h3 * E
                    d3 = (F.nr(ks, dp)[1] - F.nr(ks, dq)[1]) / (2 * h3)
                evals += 2
                rich2 = (4 * d3 - ds[1]) / 3
                if abs(rich2 - rich) > 0.5 * TAU * scale:
                    und += 1
                    continue
                rich = rich2
                err = abs(rich - an)
            if err > worst:
                worst = err
            if err > TAU * scale and bad is None:
                bad = (i, j, s, rich, an)
    if bad is not None:
        i, j, s, rich, an = bad
        fails.append({
            "key": "vmat!=dE;" + cfg,
            "msg": "tr(vmat E_%d%d) = %.10g but dExc/dD_%d%d = %.10g (spin %d); worst |diff| over all directions %.3e, tol %.1e" % (
                i, j, an, i, j, rich, s, worst, TAU * scale),
            "observed": an, "expected": rich, "tolerance": TAU * scale,
        })
    if ndir and und > 0.25 * ndir:
        fails.append({"key": "harness-undecided;" + cfg, "confirm": False,
                      "msg": "%d of %d directions not smooth enough to decide (alphabet sits on a kink)" % (und, ndir)})
    return {"fail": fails, "evals": evals, "undecided": und, "edges": 0,
            "outcome": [float("%.8e" % exc), float("%.6e" % np.abs(vm).sum())],
            "info": {"worst_err": worst / scale, "directions": ndir, "ngrids": int(ks.grids.weights.size)}}


def finish(tier, seed, cases, results):
    pts = [{n: c[n] for n in SPACE.names} for c in cases]
    worst = max([r.get("info", {}).get("worst_err", 0.0) for r in results] + [0.0])
    return {"coverage": {"transitions": max(SPACE.count_edges(pts), 1), "worst_discrepancy_relative_to_max(1,|vmat|)": worst,
                         "tolerance_relative_to_max(1,|vmat|)": TAU, "dimensions": {n: SPACE.values[n] for n in SPACE.names},
                         "completed_deviation_bound": 2 if tier == "thorough" else 1}}
