"""C11 - mapped (fast) evaluators reproduce the Gaussian-process predictive function.
Engine E1, DESIGN.md section 5/C11.

States  = (mappable kernel class x index subset/slice x length-scale/scale set x control-point set).
Oracles = the Python kernel sum f(x) = sum_a k(x, x_a) alpha_a (and its gradient by Richardson
          differences of that sum) on an evaluation lattice inside the feature bounds and at its
          corners:
          * C squared-exponential evaluators and KernelEvaluator: value and gradient to 1e-11;
          * spline-mapped models (real get_mapped_gp_evaluator_{simple,additive,linear} +
            SplineSetEvaluator / GlobalLinearEvaluator): value error at grid density 4, 8, 16 must
            shrink by >= 2x per doubling (>= 8x over two) and be < 1e-3 of the function scale at the default 8;
            gradient error must shrink and be < 3e-2 of the gradient scale at the default;
          * get_k0_for_mapping(X, Y, l) equals the per-dimension factor _get_k0_dk0_eval uses.
"""
import itertools

import numpy as np

ID = "C11"
VARIANT = "plain"
LEVEL_RULE = (
    "states = (kernel class x index set x hyper-parameter set x control-point set); each maps the kernel with the real mapping "
    "routines and compares evaluator and kernel sum on a lattice of interior and corner points; outcome = rounded function checksum"
)
ASSUMPTIONS = [
    "evaluation only inside the feature bounds [0,1]^n (nothing is claimed outside)",
    "seeded control points (7-12) and weights; length scales from {0.25..0.9}",
    "spline error thresholds from measurement on the unchanged tree (values 2e-3 -> 4e-4 -> 4e-5 for densities 4/8/16)",
]
NFEAT = 5


_MIXED = [False]  # set per case: feature list whose features have DIFFERENT bounds (a spline grid laid over the bounds of
                  # the wrong feature is invisible when every feature lives on (0, 1))


def _fl():
    from ciderpress.dft import transform_data as T

    if _MIXED[0]:
        return T.FeatureList([T.UMap(1, 0.5), T.SignedUMap(2, 0.7), T.ZMap(3, 0.6, scale=2.0, center=0.5), T.UMap(4, 0.8),
                              T.VMap(5, 0.5, scale=1.5, center=0.0)])  # bounds (0,1) (-1,1) (-0.5,1.5) (0,1) (0,1.5)
    return T.FeatureList([T.UMap(i + 1, 0.5 + 0.1 * i) for i in range(NFEAT)])  # all bounds (0, 1)


def _to_bounds(U):
    """Affine image of points of the unit box in the box of the feature bounds."""
    if not _MIXED[0]:
        return U
    b = np.array(_fl().bounds_list, dtype=float)
    return b[:, 0] + (b[:, 1] - b[:, 0]) * U


def _ctrl(seed, n=9, salt=0):
    rng = np.random.RandomState(50 + 13 * seed + salt)
    return _to_bounds(0.05 + 0.9 * rng.rand(n, NFEAT)), rng.randn(n) * 0.4


def _lattice(ndim_active=None):
    g = [0.0, 0.13, 0.5, 0.82, 1.0]
    rng = np.random.RandomState(4)
    pts = 0.02 + 0.96 * rng.rand(160, NFEAT)
    corners = np.array(list(itertools.product([0.0, 1.0], repeat=NFEAT)))[::3]
    edge = np.array([[a, b, 0.3, 0.7, c] for a in g for b in g for c in (0.0, 0.6)])
    return _to_bounds(np.vstack([pts, corners, edge]))


LS = np.array([0.35, 0.6, 0.45, 0.8, 0.5])


def initial_cases(tier, seed):
    cases = []
    idxs = {"all": None, "list": [2, 0, 3], "slice": [1, 4, None], "slice-open": [2, None, None], "slice-step": [0, 5, 2], "list1": [4],
            "slice-open-step": 0, "slice-nostart": 0}
    for name in idxs:
        for scaled in (False, True):
            for cs in (0, 1):
                cases.append({"kind": "rbf", "idx": name, "scaled": scaled, "cs": cs})
    for cs in (0, 1):
        cases.append({"kind": "antisym", "cs": cs})
        cases.append({"kind": "spin", "cs": cs})
        cases.append({"kind": "spin", "cs": cs, "scaled": True})
        for kk in ("RBF", "ARBF", "Poly", "Sum"):
            cases.append({"kind": "kerneleval", "kk": kk, "cs": cs})
        cases.append({"kind": "linear", "cs": cs})
    for name in ("list1", "slice-step", "list", "slice"):
        if name == "slice" and tier == "quick":
            continue
        cases.append({"kind": "spline-simple", "idx": name, "cs": 0})
        cases.append({"kind": "spline-simple", "idx": name, "cs": 0, "bounds": "mixed"})
    for cls, order, prod in itertools.product(["ARBF", "AddRQ", "AddLLRBF"], [1, 2, 3], [False, True]):
        if order == 3 and tier == "quick" and cls != "ARBF":
            continue
        cases.append({"kind": "spline-additive", "cls": cls, "order": order, "prod": prod, "cs": 0})
        if cls == "ARBF" and order <= 2:
            cases.append({"kind": "spline-additive", "cls": cls, "order": order, "prod": prod, "cs": 0, "bounds": "mixed"})
        # index layouts: the order of the feature indexes of the two factors relative to each other and within the
        # additive factor (ascending, subset-RBF index after the additive ones, unsorted list)
        if order <= 2 and (cls == "ARBF" or tier == "thorough"):
            for layout in (("srbf-last", "srbf-slice-after", "arbf-unsorted", "interleaved") if prod else ("arbf-unsorted", "arbf-list")):
                cases.append({"kind": "spline-additive", "cls": cls, "order": order, "prod": prod, "cs": 0, "layout": layout})
    # several spline terms of the highest dimensionality (four indexes): a two-index subset RBF times second-order terms of
    # three additive features, and a one-index subset RBF times third-order terms of four additive features
    for cls in (["ARBF"] if tier == "quick" else ["ARBF", "AddRQ", "AddLLRBF"]):
        cases.append({"kind": "spline-additive", "cls": cls, "order": 2, "prod": True, "cs": 0, "layout": "srbf2-arbf3"})
        cases.append({"kind": "spline-additive", "cls": cls, "order": 3, "prod": True, "cs": 0, "layout": "srbf1-arbf4"})
    for cls in ("ARBFV2", "AddLLRBF", "AddRQ"):
        cases.append({"kind": "k0", "cls": cls})
    for c in cases:
        c["seed"] = seed
    return cases


def case_label(c):
    return ";".join("%s=%s" % (k, c[k]) for k in c if k != "seed")


def _index(name):
    spec = {"all": None, "list": [2, 0, 3], "slice": slice(1, 4), "slice-open": slice(2, None), "slice-step": slice(0, 5, 2), "list1": [4],
            "slice-open-step": slice(1, None, 2), "slice-nostart": slice(None, 3)}[name]
    return spec


def _ref(kernel, Xc, alpha, X):
    f = kernel(X, Xc).dot(alpha)
    g = np.zeros_like(X)
    for j in range(X.shape[1]):
        ds = []
        for h in (2e-4, 1e-4):
            Xp, Xm = X.copy(), X.copy()
            Xp[:, j] += h
            Xm[:, j] -= h
            ds.append((kernel(Xp, Xc).dot(alpha) - kernel(Xm, Xc).dot(alpha)) / (2 * h))
        g[:, j] = (4 * ds[1] - ds[0]) / 3
    return f, g


def _compare_exact(ev, kernel, Xc, alpha, ck, fails, cols=None):
    X = _lattice()
    f, g = _ref(kernel, Xc, alpha, X)
    r, d = ev(X.copy())
    if cols is not None:  # a subset evaluator returns the gradient with respect to its own columns
        if np.abs(np.delete(g, cols, axis=1)).max() > 1e-9:
            fails.append({"key": "reference-depends-on-inactive;" + ck, "confirm": False, "msg": "harness: kernel depends on inactive columns"})
        g = g[:, cols]
    fs = 1 + np.abs(f).max()
    gs = 1 + np.abs(g).max()
    if np.abs(r - f).max() > 1e-11 * fs:
        i = int(np.argmax(np.abs(r - f)))
        fails.append({"key": "value;" + ck, "msg": "evaluator value differs from the kernel sum by %.3e at x=%s (%.10g vs %.10g)" % (np.abs(r - f).max(), X[i].tolist(), r[i], f[i])})
    if np.abs(d - g).max() > 2e-8 * gs:
        fails.append({"key": "gradient;" + ck, "msg": "evaluator gradient differs from the gradient of the kernel sum by %.3e" % np.abs(d - g).max()})
    return float(np.abs(f).sum())


def run_rbf(case):
    from ciderpress.dft import xc_evaluator as X
    from ciderpress.models import kernels as K

    fails = []
    Xc, alpha = _ctrl(case["seed"], salt=case["cs"])
    idx = _index(case["idx"])
    ck = "kind=rbf;idx=%s;scaled=%s" % (case["idx"], case["scaled"])
    if idx is None:
        k = K.DiffRBF(length_scale=LS)
    else:
        n = len(np.arange(NFEAT)[idx])
        k = K.SubsetRBF(idx, length_scale=LS[:n] * 1.1)
    kernel = K.DiffConstantKernel(1.7) * k if case["scaled"] else k
    # the evaluator receives control points restricted to the active columns (its C kernel reads exactly that many
    # entries per row); control points of any other width must be rejected, not read out of bounds
    cols_own = list(np.arange(NFEAT)[idx]) if idx is not None else list(range(NFEAT))
    if idx is not None:
        try:
            X.RBFEvaluator(kernel, Xc, alpha)
            fails.append({"key": "accepted-wrong-width;" + ck, "msg": "RBFEvaluator accepted control points with %d columns for a kernel acting on %d" % (Xc.shape[1], len(cols_own))})
        except (ValueError, AssertionError):
            pass
    try:
        ev = X.RBFEvaluator(kernel, np.ascontiguousarray(Xc[:, cols_own]), alpha)
        if list(ev._indexes) != cols_own:
            fails.append({"key": "indexes;" + ck, "msg": "evaluator selects columns %s, the kernel acts on %s" % (list(ev._indexes), cols_own)})
        chk = _compare_exact(ev, kernel, Xc, alpha, ck, fails, cols=None if idx is None else list(ev._indexes))
    except Exception as e:
        return {"fail": [{"key": "cannot-evaluate;%s;%s" % (ck, type(e).__name__), "msg": "mapped RBFEvaluator for %s raised %s: %s" % (ck, type(e).__name__, str(e)[:150])}], "evals": 1, "outcome": "raised"}
    return {"fail": fails, "evals": 2, "outcome": [ck, float("%.9e" % chk)]}


def run_antisym(case):
    from ciderpress.dft import xc_evaluator as X
    from ciderpress.models.kernel_plans.kernel_tools import get_antisym_rbf_kernel

    fails = []
    Xc, alpha = _ctrl(case["seed"], salt=case["cs"])
    kernel = get_antisym_rbf_kernel(LS, scale=1.3)
    ev = X.AntisymRBFEvaluator(kernel, Xc, alpha)
    chk = _compare_exact(ev, kernel, Xc, alpha, "kind=antisym", fails)
    return {"fail": fails, "evals": 2, "outcome": ["antisym", float("%.9e" % chk)]}


def run_spin(case):
    from ciderpress.dft import xc_evaluator as X
    from ciderpress.models import kernels as K

    fails = []
    Xc, alpha = _ctrl(case["seed"], salt=case["cs"])
    Xc2, _ = _ctrl(case["seed"], salt=case["cs"] + 7)
    k = K.DiffRBF(length_scale=LS)
    if case.get("scaled"):
        # constant prefactor: the spin kernel is a product of two kernel factors, each of which carries the constant
        k = K.DiffConstantKernel(1.4) * k
    ev = X.SpinRBFEvaluator(k, np.stack([Xc, Xc2]), alpha)
    Xa = _lattice()
    Xb = _lattice()[::-1] * 0.9 + 0.03
    f = ((k(Xa, Xc) * k(Xb, Xc2)) + (k(Xa, Xc2) * k(Xb, Xc))).dot(alpha)  # k_aa k_bb + k_ab k_ba
    r, d = ev(np.stack([Xa, Xb]))
    if np.abs(r - f).max() > 1e-11 * (1 + np.abs(f).max()):
        fails.append({"key": "value;kind=spin", "msg": "spin evaluator differs from sum_a alpha_a (k_aa k_bb + k_ab k_ba) by %.3e" % np.abs(r - f).max()})
    # gradient by differences of the reference
    for s, Xs in ((0, Xa), (1, Xb)):
        for j in (0, 3):
            ds = []
            for h in (2e-4, 1e-4):
                vals = []
                for sg in (1, -1):
                    A, B = Xa.copy(), Xb.copy()
                    (A if s == 0 else B)[:, j] += sg * h
                    vals.append(((k(A, Xc) * k(B, Xc2)) + (k(A, Xc2) * k(B, Xc))).dot(alpha))
                ds.append((vals[0] - vals[1]) / (2 * h))
            num = (4 * ds[1] - ds[0]) / 3
            if np.abs(d[s, :, j] - num).max() > 2e-8 * (1 + np.abs(num).max()):
                fails.append({"key": "gradient;kind=spin", "msg": "spin evaluator gradient (channel %d, feature %d) differs by %.3e" % (s, j, np.abs(d[s, :, j] - num).max())})
    return {"fail": fails, "evals": 3, "outcome": ["spin%s" % ("-scaled" if case.get("scaled") else ""), float("%.9e" % np.abs(f).sum())]}


def run_kerneleval(case):
    from ciderpress.dft import xc_evaluator as X
    from ciderpress.models import kernels as K

    fails = []
    Xc, alpha = _ctrl(case["seed"], salt=case["cs"])
    kk = case["kk"]
    if kk == "RBF":
        k = K.DiffConstantKernel(0.7) * K.DiffRBF(length_scale=LS)
    elif kk == "ARBF":
        k = K.DiffARBF(order=2, length_scale=LS, scale=np.array([0.1, 0.6, 0.3]))
    elif kk == "Poly":
        k = K.DiffPolyKernel(gamma=0.4, order=3)
    else:
        k = K.SubsetRBF([0, 1], length_scale=LS[:2]) * K.SubsetARBF(slice(2, 5), order=2, length_scale=LS[2:], scale=np.array([0.1, 0.6, 0.3])) + K.DiffLinearKernel()
    ev = X.KernelEvaluator(k, Xc, alpha)
    chk = _compare_exact(ev, k, Xc, alpha, "kind=kerneleval;kk=%s" % kk, fails)
    return {"fail": fails, "evals": 2, "outcome": [kk, float("%.9e" % chk)]}


def run_linear(case):
    from ciderpress.models import kernels as K
    from ciderpress.models.kernel_plans.map_tools import get_mapped_gp_evaluator_linear

    fails = []
    Xc, alpha = _ctrl(case["seed"], n=NFEAT, salt=case["cs"])
    k = K.DiffLinearKernel()
    ev = get_mapped_gp_evaluator_linear(k, Xc, alpha)
    chk = _compare_exact(ev, k, Xc, alpha, "kind=linear", fails)
    return {"fail": fails, "evals": 2, "outcome": ["linear", float("%.9e" % chk)]}


def _spline_errors(build, kernel, Xc, alpha, ck, fails):
    import contextlib
    import io

    from ciderpress.dft.xc_evaluator import SplineSetEvaluator

    X = _lattice()
    f, g = _ref(kernel, Xc, alpha, X)
    errs, gerrs = [], []
    for dens in (4, 8, 16):
        with contextlib.redirect_stdout(io.StringIO()):
            out = build(dens)
        ev = SplineSetEvaluator(*out[:4], const=out[4] if len(out) > 4 else 0)
        r, d = ev(X.copy())
        errs.append(float(np.abs(r - f).max()))
        gerrs.append(float(np.abs(d - g).max()))
    fs = max(np.abs(f).max(), 1e-3)
    gs = max(np.abs(g).max(), 1e-3)
    # measured on the unchanged tree (lattice incl. points ON the boundary of the feature box, where the natural-spline
    # end conditions dominate): values <= 1.1e-3 of the function scale and gradients <= 5e-2 of the gradient scale at
    # the default density, errors falling 5x / 2x per doubling; a wrong index set, scale order or factor is an O(1) error
    if not errs[1] <= 5e-3 * fs:
        fails.append({"key": "spline-value;" + ck, "msg": "spline-mapped model differs from the kernel sum by %.3e (function scale %.3e) at the default grid density; errors at densities 4/8/16: %s" % (errs[1], fs, errs)})
    # cubic splines: ~16x per doubling asymptotically; measured e.g. 7.3x for the first and 2.9x for the second
    # doubling (seed 2; the second step approaches the floor of the tabulated factors).  Required: >= 2x per doubling and >= 8x overall.
    if not (errs[1] <= errs[0] / 2 + 1e-9 * fs and errs[2] <= errs[1] / 2 + 1e-9 * fs and errs[2] <= errs[0] / 8 + 1e-9 * fs):
        fails.append({"key": "spline-not-converging;" + ck, "msg": "spline error does not shrink by 2x per doubling and 8x over two doublings of the grid density: %s" % errs})
    if not gerrs[1] <= 1.5e-1 * gs:
        fails.append({"key": "spline-gradient;" + ck, "msg": "gradient of the spline-mapped model differs by %.3e (scale %.3e) at the default density; %s" % (gerrs[1], gs, gerrs)})
    if not (gerrs[2] <= gerrs[1] / 1.5 and gerrs[1] <= gerrs[0] / 1.5):
        fails.append({"key": "spline-gradient-not-converging;" + ck, "msg": "gradient error of the spline-mapped model does not decrease with density: %s" % gerrs})
    return errs, gerrs, float(np.abs(f).sum())


def run_spline_simple(case):
    from ciderpress.models import kernels as K
    from ciderpress.models.kernel_plans.map_tools import get_mapped_gp_evaluator_simple

    fails = []
    Xc, alpha = _ctrl(case["seed"], n=10, salt=case["cs"])
    idx = _index(case["idx"])
    n = len(np.arange(NFEAT)[idx])
    kernel = K.DiffConstantKernel(1.4) * K.SubsetRBF(idx, length_scale=LS[:n] * 1.2)
    ck = "kind=spline-simple;idx=%s%s" % (case["idx"], ";bounds=mixed" if case.get("bounds") else "")
    fl = _fl()
    errs, gerrs, chk = _spline_errors(lambda dens: get_mapped_gp_evaluator_simple(kernel, Xc, alpha, fl, rbf_density=dens), kernel, Xc, alpha, ck, fails)
    return {"fail": fails, "evals": 4, "outcome": [ck, float("%.6e" % chk)], "info": {"errs": errs, "gerrs": gerrs}}


def run_spline_additive(case):
    from ciderpress.models import kernels as K
    from ciderpress.models.kernel_plans.map_tools import get_mapped_gp_evaluator_additive

    fails = []
    Xc, alpha = _ctrl(case["seed"], n=9, salt=case["cs"])
    order = case["order"]
    sc = np.array([0.15, 0.8, 0.5, 0.35][: order + 1])
    cls = {"ARBF": K.SubsetARBF, "AddRQ": K.SubsetAddRQ, "AddLLRBF": K.SubsetAddLLRBF}[case["cls"]]
    kw = dict(order=order, scale=sc)
    if case["cls"] != "ARBF":
        kw["alpha"] = 1.6
    ck = "kind=spline-additive;cls=%s;order=%d;prod=%s%s" % (case["cls"], order, case["prod"], ";bounds=mixed" if case.get("bounds") else "")
    layout = case.get("layout")
    if layout:
        ck += ";layout=" + layout
        sidx, aidx = {"srbf-last": ([3], [0, 1]), "srbf-slice-after": (slice(2, 3), slice(0, 2)), "arbf-unsorted": ([0], [3, 1]),
                      "interleaved": ([2], [4, 0, 3]), "arbf-list": (None, [1, 2, 4]),
                      "srbf2-arbf3": ([0, 1], [2, 3, 4]), "srbf1-arbf4": ([0], [1, 2, 3, 4])}[layout]
        na = len(np.arange(NFEAT)[aidx])
        a = cls(aidx, length_scale=LS[1:1 + na] * np.array([1.0, 1.7, 0.6, 1.3])[:na], **kw)
        ns = 1 if sidx is None else len(np.arange(NFEAT)[sidx])
        kernel = K.SubsetRBF(sidx, length_scale=LS[:ns] * np.array([0.8, 1.1])[:ns]) * a if case["prod"] else a
    elif case["prod"]:
        a = cls(slice(1, 4), length_scale=LS[1:4], **kw)
        kernel = K.SubsetRBF(slice(0, 1), length_scale=LS[:1]) * a
    else:
        kernel = cls(slice(1, 5) if order < 3 else slice(1, 4), length_scale=LS[1:5] if order < 3 else LS[1:4], **kw)
    fl = _fl()
    try:
        errs, gerrs, chk = _spline_errors(lambda dens: get_mapped_gp_evaluator_additive(kernel, Xc, alpha, fl, srbf_density=dens, arbf_density=dens),
                                          kernel, Xc, alpha, ck, fails)
    except AssertionError:
        return {"fail": [], "evals": 1, "outcome": [ck, "mapping not supported (rejected)"]}
    return {"fail": fails, "evals": 4, "outcome": [ck, float("%.6e" % chk)], "info": {"errs": errs, "gerrs": gerrs}}


def run_k0(case):
    from ciderpress.models import kernels as K

    fails = []
    cls = {"ARBFV2": K.DiffARBFV2, "AddLLRBF": K.DiffAddLLRBF, "AddRQ": K.DiffAddRQ}[case["cls"]]
    x = np.array([0.05, 0.3, 0.77, 1.0])
    y = np.array([0.0, 0.2, 0.5, 0.9, 1.0])
    out = []
    for ls in (1.0, 0.45, 2.2):
        kw = dict(order=1, length_scale=np.array([ls]), scale=np.array([0.0, 1.0]))
        if case["cls"] != "ARBFV2":
            kw["alpha"] = 1.6
        k = cls(**kw)
        k0_map = k.get_k0_for_mapping(x, y, ls)
        k0_own = k._get_k0_dk0_eval(x[:, None], y[:, None], False)[0][:, :, 0]
        err = np.abs(k0_map - k0_own).max()
        if err > 1e-13:
            fails.append({"key": "k0-for-mapping;cls=%s" % case["cls"], "msg": "get_k0_for_mapping(X, Y, l=%g) differs from the kernel's own per-dimension factor by %.3e" % (ls, err)})
        out.append(float("%.9e" % k0_own.sum()))
    return {"fail": fails, "evals": 3, "outcome": [case["cls"]] + out}


def run_case(case):
    k = case["kind"]
    _MIXED[0] = case.get("bounds") == "mixed"
    return {"rbf": run_rbf, "antisym": run_antisym, "spin": run_spin, "kerneleval": run_kerneleval, "linear": run_linear,
            "spline-simple": run_spline_simple, "spline-additive": run_spline_additive, "k0": run_k0}[k](case)
