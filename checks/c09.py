"""C09 - results are independent of batching, blocking, call history and input aliasing.
Engine E2 (explicit-state BFS over call histories on the real objects), DESIGN.md 5/C09.

Machine 1 (integrator): one CiderNumInt-family object per feature family; operations =
  restricted / unrestricted calls with one or several density matrices, on a second molecule,
  on a new grids object, on the same grids object rebuilt in place, with a tiny memory budget
  (several blocks), reset().  Every operation's result must equal the same operation on FRESH
  objects; batch element i must equal the single call; all caller-owned arrays (density
  matrices, grids.coords/weights, mol._env) must be bit-identical afterwards.
Machine 2 (generator): get_features(rho, spin) / get_potential(vfeat, spin) sequences on one
  generator against the reference model 'the potential belongs to the last feature pass of that
  spin' realised on fresh generators; rho and vfeat arrays must be bit-identical afterwards.
Machine 3 (evaluators/plans): chunking around KernelEvaluator's chunk size and caller arrays of
  the exponent functions / feature maps.
"""
import hashlib
import itertools

import numpy as np

ID = "C09"
VARIANT = "plain"
LEVEL_RULE = (
    "states = call histories (depth <= 3 integrator, <= 4 generator) on one real object, merged by canonical state "
    "(which generators exist, for which mol/grids/nspin, cache occupancy); every step is compared with the same call on fresh "
    "objects; outcome = rounded result of the last operation; distinct = distinct (history-state, result) signatures"
)
ASSUMPTIONS = [
    "histories up to depth 3 (integrator) / 4 (generator); PySCF-internal state is not part of the canonical key",
    "tolerance 1e-11 relative between an operation in a history and on fresh objects (summation order is identical; only cache reuse may differ)",
    "tiny max_memory still yields blocks of >= 4*BLKSIZE points (PySCF's minimum), so multi-block runs need grids of > 480 points (they have 2000)",
]
TOL = 1e-11
FAMS = ["SL", "VIJ", "SDMX1", "VIJ+SDMX1", "VK"]
OPS = ["rksA", "rksB", "rks2", "rks3", "uksAB", "uksBA", "uks2", "mol2", "grids2", "regrid", "smallmem", "reset", "uksmall"]
DEPTH = 3


def initial_cases(tier, seed):
    cases = []
    fams = FAMS if tier == "thorough" else FAMS[:4]
    for fam in fams:
        cases.append({"kind": "ni", "fam": fam, "hist": [], "seed": seed, "depth": DEPTH if tier == "quick" else 4})
    for fam, plan in itertools.product(["VJ", "VIJ", "VI", "VK"], ["gaussian", "spline"]):
        cases.append({"kind": "gen", "fam": fam, "plan": plan, "hist": [], "seed": seed, "depth": 4})
    # the same call alphabet in the generator's nuclear-gradient mode (atom-ordered input, extra outputs, extra cache entries)
    for fam, plan in itertools.product(["VJ", "VIJ", "VK"], ["gaussian", "spline"]):
        if tier == "quick" and plan == "spline" and fam != "VIJ":
            continue
        cases.append({"kind": "gen", "fam": fam, "plan": plan, "gmode": "grad", "hist": [], "seed": seed, "depth": 4})
    for k in ("kernel-chunk", "exponent-alias", "maps-alias", "plan-alias", "sdmx-alias"):
        cases.append({"kind": "misc", "what": k, "seed": seed})
    return cases


def case_label(c):
    return ";".join("%s=%s" % (k, c[k]) for k in c if k not in ("seed", "depth"))


# ----------------------------------------------------------------------------- machine 1
class World:
    """Real objects for one family: a calculator, two molecules, several grids."""

    def __init__(self, fam, seed):
        from mc import fixtures as F

        self.F = F
        self.fam = fam
        self.seed = seed
        st = F.feature_settings(fam)
        self.ml = F.make_mlxc(st, evals=("RBF",), mode="SEP", seed=seed)
        self.molA = F.make_mol("LiH")
        self.molB = F.make_mol("LiH", atom="Li 0 0 -0.45; H 0 0 1.40")
        self.ks = F.make_ks(self.molA, self.ml, nspin=1, xmix=0.5, xkernel="GGA_X_PBE", ckernel="GGA_C_PBE")
        self.ni = self.ks._numint
        self.gridsA = self.ks.grids
        self.gridsB = self._grids(self.molB, (20, 50))
        self.gridsA2 = self._grids(self.molA, (15, 26))
        self.D1 = F.make_dm(self.molA, "D1", seed)
        self.D2 = F.make_dm(self.molA, "D2", seed)
        self.D1B = F.make_dm(self.molB, "D1", seed)
        self.regridded = False

    def _grids(self, mol, ag):
        g = type(self.ks.grids)(mol) if not hasattr(self.ks.grids, "lmax") else type(self.ks.grids)(mol, lmax=4)
        g.atom_grid = ag
        g.prune = None
        self.F.build_grids(g, 4)
        return g

    def snapshot(self):
        return [a.copy() for a in (self.D1, self.D2, self.D1B, self.gridsA.coords, self.gridsA.weights,
                                   self.gridsB.coords, self.gridsA2.coords, self.molA._env, self.molB._env)]

    def do(self, op):
        ni, ks = self.ni, self.ks
        xc = ks.xc
        A, B = 0.55 * self.D1, 0.45 * self.D2
        if op == "rksA":
            return ni.nr_rks(self.molA, self.gridsA, xc, self.D1)
        if op == "rksB":
            return ni.nr_rks(self.molA, self.gridsA, xc, self.D2)
        if op == "rks2":
            return ni.nr_rks(self.molA, self.gridsA, xc, np.array([self.D1, self.D2]))
        if op == "rks3":
            return ni.nr_rks(self.molA, self.gridsA, xc, np.array([self.D2, self.D1, self.D2]))
        if op == "uksAB":
            return ni.nr_uks(self.molA, self.gridsA, xc, np.array([A, B]))
        if op == "uksBA":
            return ni.nr_uks(self.molA, self.gridsA, xc, np.array([B, A]))
        if op == "uks2":
            return ni.nr_uks(self.molA, self.gridsA, xc, np.array([[A, B], [B, A]]))
        if op == "mol2":
            return ni.nr_rks(self.molB, self.gridsB, xc, self.D1B)
        if op == "grids2":
            return ni.nr_rks(self.molA, self.gridsA2, xc, self.D1)
        if op == "regrid":
            # the SAME grids object is rebuilt in place with another setting
            self.gridsA.atom_grid = (15, 26) if not self.regridded else (20, 50)
            self.regridded = not self.regridded
            self.F.build_grids(self.gridsA, 4)
            return ni.nr_rks(self.molA, self.gridsA, xc, self.D1)
        if op == "smallmem":
            return ni.nr_rks(self.molA, self.gridsA, xc, self.D1, max_memory=0.01)
        if op == "uksmall":
            return ni.nr_uks(self.molA, self.gridsA, xc, np.array([A, B]), max_memory=0.01)
        if op == "reset":
            ks.reset(self.molA)
            ks.build()
            self.F.build_grids(self.gridsA, 4)  # PySCF's reset drops the grid points; rebuild them as a user would
            self.ni = ks._numint
            return None
        raise ValueError(op)

    def canon(self):
        ni = self.ni
        parts = [self.fam, "regrid" if self.regridded else "-"]
        g = getattr(ni, "nldfgen", None)
        if g is None:
            parts.append("nogen")
        else:
            which_g = "A" if getattr(ni, "grids", None) is self.gridsA else "B" if getattr(ni, "grids", None) is self.gridsB else "A2"
            parts.append("gen:n%d:%s:%s" % (g.plan.nspin, which_g, ",".join("1" if g._cache[s] is not None else "0" for s in sorted(g._cache))))
            parts.append("ngrid%d" % g.grids_indexer.idx_map.size)
        s = getattr(ni, "sdmxgen", None)
        if s is None:
            parts.append("nosdmx")
        else:
            parts.append("sdmx:n%d:%s" % (s.plan.nspin, "c" if s._cached_ao_data is not None else "-"))
        parts.append("mol:%s" % ("A" if ni.mol is self.molA else "B" if ni.mol is self.molB else "none"))
        return "|".join(parts)


_REF = {}


def _reference(fam, seed, op, regridded_before):
    """The same operation on fresh objects."""
    key = (fam, seed, op, regridded_before)
    if key not in _REF:
        w = World(fam, seed)
        if regridded_before and op != "regrid":
            w.do("regrid")
            w2 = World(fam, seed)  # fresh calculator, but grids in the rebuilt configuration
            w2.gridsA.atom_grid = (15, 26)
            w2.F.build_grids(w2.gridsA, 4)
            w2.regridded = True
            w = w2
        elif regridded_before and op == "regrid":
            w.gridsA.atom_grid = (15, 26)
            w.F.build_grids(w.gridsA, 4)
            w.regridded = True
        _REF[key] = w.do(op)
    return _REF[key]


def _single(fam, seed, which, regridded):
    return _reference(fam, seed, which, regridded)


def _cmp(name, a, b, fails, key, msg):
    a = np.asarray(a, float)
    b = np.asarray(b, float)
    if a.shape != b.shape:
        fails.append({"key": key, "msg": "%s: shapes %s vs %s (%s)" % (name, a.shape, b.shape, msg)})
        return
    r = float(np.abs(a - b).max() / (1.0 + np.abs(b).max()))
    if not r <= TOL:
        fails.append({"key": key, "msg": "%s differs by rel %.3e (%s)" % (name, r, msg)})


def run_ni(case):
    fam, hist, seed = case["fam"], case["hist"], case["seed"]
    w = World(fam, seed)
    fails = []
    res = None
    evals = 0
    for k, op in enumerate(hist):
        snap = w.snapshot() if op != "regrid" else None
        reg_before = w.regridded
        res = w.do(op)
        evals += 1
        if snap is not None:
            now = w.snapshot()
            names = ["D1", "D2", "D1(mol2)", "grids.coords", "grids.weights", "grids2.coords", "grids3.coords", "mol._env", "mol2._env"]
            for nm, a, b in zip(names, snap, now):
                if not np.array_equal(a, b):
                    fails.append({"key": "input-modified;%s;fam=%s;op=%s" % (nm, fam, op), "msg": "%s was modified by %s" % (nm, op)})
        if k == len(hist) - 1 and res is not None:
            prev = ",".join(hist[:-1]) or "-"
            ref = _reference(fam, seed, op, reg_before)
            evals += 1
            key = "history-dependent;fam=%s;op=%s;after=%s" % (fam, op, hist[-2] if len(hist) > 1 else "-")
            for name, a, b in zip(("nelec", "excsum", "vmat"), res, ref):
                _cmp(name, a, b, fails, key, "operation %s after history [%s] vs fresh objects" % (op, prev))
            # batch element i equals the single call
            singles = {"rks2": ["rksA", "rksB"], "rks3": ["rksB", "rksA", "rksB"], "uks2": ["uksAB", "uksBA"]}.get(op)
            if singles:
                for i, sop in enumerate(singles):
                    sref = _single(fam, seed, sop, reg_before)
                    evals += 1
                    if op.startswith("rks"):
                        got = (res[0][i], res[1][i], res[2][i])
                    else:
                        got = (res[0][:, i], res[1][i], res[2][:, i])
                    for name, a, b in zip(("nelec", "excsum", "vmat"), got, sref):
                        _cmp(name, a, b, fails, "batch!=single;fam=%s;op=%s;element=%d;%s" % (fam, op, i, name),
                             "element %d of %s vs the separate call %s" % (i, op, sop))
            if op in ("smallmem", "uksmall"):
                sref = _single(fam, seed, "rksA" if op == "smallmem" else "uksAB", reg_before)
                for name, a, b in zip(("nelec", "excsum", "vmat"), res, sref):
                    _cmp(name, a, b, fails, "blocksize-dependent;fam=%s;op=%s;%s" % (fam, op, name), "tiny max_memory vs default")
    children = []
    state = w.canon() + "|last=%s" % (hist[-1] if hist else "-")
    if len(hist) < case["depth"] and not fails:
        for op in OPS:
            if op == "reset" and not hist:
                continue
            children.append(dict(case, hist=hist + [op]))
    out = None
    if res is not None:
        out = [float("%.9e" % np.sum(np.asarray(res[1], float))), float("%.7e" % np.abs(np.asarray(res[2], float)).sum())]
    return {"fail": fails, "evals": evals, "edges": len(hist), "outcome": [state, out], "children": children,
            "state": state if hist else None}


# ----------------------------------------------------------------------------- machine 2
GOPS = ["Fa0", "Fb0", "Fa1", "Fb1", "P10", "P20", "P11", "P21"]


def _gen_world(case):
    from checks import c07

    from mc import fixtures as F

    mol = F.make_mol("HF")
    c = {"fam": case["fam"], "sl": "npa", "rho_mult": "one", "plan": case["plan"]}
    st, grids, g1, g2 = c07._nldf_gens(c, mol)
    lvl = st.sl_settings.level
    ra = 0.5 * c07._rho_on_grid(mol, grids, F.make_dm(mol, "D1", case["seed"]), lvl)
    rb = 0.5 * c07._rho_on_grid(mol, grids, F.make_dm(mol, "D2", case["seed"]), lvl)
    nf = st.nldf_settings.nfeat
    w = grids.weights
    v1 = np.cos(np.arange(nf * w.size)).reshape(nf, w.size) * w * ra[0]
    v2 = np.sin(1.0 + np.arange(nf * w.size)).reshape(nf, w.size) * w * rb[0]
    if case.get("gmode") == "grad":
        # gradient mode takes the density in the atom-ordered layout of the grids indexer
        gi = g2.grids_indexer
        n = gi.idx_map.size

        def ato(r):
            out = np.zeros((r.shape[0], gi.ngrids))
            out[:, gi.idx_map] = r[:, :n]
            return out

        ra, rb = ato(ra), ato(rb)
    return mol, grids, g2, {"a": ra, "b": rb}, {"1": v1, "2": v2}


def _gen_apply(g, rhos, vs, op, last, gmode=None):
    kw = dict(map_grids=False, grad_mode=True) if gmode == "grad" else {}
    if op[0] == "F":
        s = int(op[2])
        rho = rhos[op[1]].copy()
        keep = rho.copy()
        out = g.get_features(rho, spin=s, **kw)
        last[s] = op[1]
        return out, (rho, keep, "rho passed to get_features")
    s = int(op[2])
    v = vs[op[1]].copy()
    keep = v.copy()
    out = g.get_potential(v, spin=s, **kw)
    if gmode == "grad":
        # (potential on the atom-ordered grid, grid-response density, per-atom force term)
        out = np.concatenate([np.ravel(np.asarray(o, dtype=float)) for o in out])
    return out, (v, keep, "vfeat passed to get_potential")


def run_gen(case):
    hist = case["hist"]
    fails = []
    mol, grids, g, rhos, vs = _gen_world(case)
    last = {0: None, 1: None}
    out = None
    gmode = case.get("gmode")
    ck = "fam=%s;plan=%s%s" % (case["fam"], case["plan"], ";mode=grad" if gmode == "grad" else "")
    evals = 0
    valid = True
    for k, op in enumerate(hist):
        s = int(op[2])
        if op[0] == "P" and last[s] is None:
            valid = False  # potential before any feature pass of that spin: a rejection is expected
            try:
                g.get_potential(vs[op[1]].copy(), spin=s, **(dict(map_grids=False, grad_mode=True) if gmode == "grad" else {}))
                fails.append({"key": "potential-before-features-accepted;" + ck, "msg": "get_potential without a feature pass returned a result"})
            except Exception:
                pass
            break
        out, (arr, keep, what) = _gen_apply(g, rhos, vs, op, last, gmode)
        evals += 1
        if not np.array_equal(arr, keep):
            fails.append({"key": "input-modified;%s;%s" % ("rho" if op[0] == "F" else "vfeat", ck),
                          "msg": "%s was modified in place by %s (max change %.3e)" % (what, op, np.abs(arr - keep).max())})
    if valid and hist:
        op = hist[-1]
        s = int(op[2])
        # reference model on a fresh generator: the last feature pass of that spin, then this call
        mol2, grids2, gf, rhos2, vs2 = _gen_world(case)
        l2 = {0: None, 1: None}
        if op[0] == "P":
            _gen_apply(gf, rhos2, vs2, "F%s%d" % (last[s], s), l2, gmode)
        ref, _ = _gen_apply(gf, rhos2, vs2, op, l2, gmode)
        evals += 2
        if gmode == "grad":  # atom-ordered arrays: compared in full
            a, b = np.asarray(out), np.asarray(ref)
        else:
            big = rhos["a"][0] > 1e-7
            a = np.asarray(out)[..., big]
            b = np.asarray(ref)[..., big]
        r = float(np.abs(a - b).max() / (1 + np.abs(b).max()))
        if not r <= TOL:
            fails.append({"key": "history-dependent;gen;%s;op=%s;prev=%s" % (ck, op[0] + op[2], (hist[-2][0] + hist[-2][2]) if len(hist) > 1 else "-"),
                          "msg": "%s after history %s differs from the reference model (last feature pass of spin %d, then the call) by rel %.3e" % (op, hist[:-1], s, r)})
    children = []
    state = "%s|last=%s,%s|cache=%s|op=%s" % (ck, last[0], last[1], ",".join("1" if g._cache[s] is not None else "0" for s in (0, 1)), hist[-1] if hist else "-")
    if valid and len(hist) < case["depth"] and not fails:
        for op in GOPS:
            children.append(dict(case, hist=hist + [op]))
    return {"fail": fails, "evals": evals, "edges": len(hist), "children": children, "state": state if hist else None,
            "outcome": [state, None if out is None else float("%.9e" % np.abs(np.asarray(out)).sum())]}


# ----------------------------------------------------------------------------- machine 3
def run_misc(case):
    from mc import fixtures as F

    what = case["what"]
    fails = []
    if what == "kernel-chunk":
        from checks import c04

        fl = F.feature_list_for(c04._settings(), case["seed"])
        ev = F.make_evaluator("Kernel", fl, case["seed"], salt=3)
        lo, hi = F._bounds(fl)
        rng = np.random.RandomState(2)
        X = lo + (hi - lo) * (0.1 + 0.8 * rng.rand(4001, fl.nfeat))
        r_all, d_all = ev(X.copy())
        for n in (1, 1999, 2000, 2001, 4000):
            r, d = ev(X[:n].copy())
            if np.abs(r - r_all[:n]).max() > 1e-13 * (1 + np.abs(r_all).max()) or np.abs(d - d_all[:n]).max() > 1e-13 * (1 + np.abs(d_all).max()):
                fails.append({"key": "chunk-dependent;n=%d" % n, "msg": "KernelEvaluator on the first %d samples differs from the same samples inside a batch of 4001" % n})
        return {"fail": fails, "evals": 6, "outcome": ["kernel-chunk", float("%.8e" % r_all.sum())]}
    if what == "exponent-alias":
        from ciderpress.dft import settings as S

        rng = np.random.RandomState(1)
        rho = np.concatenate([[0.0, 1e-12, 5e-11], np.exp(np.linspace(-8, 2, 20))])
        sigma = (0.3 * rho ** (4.0 / 3)) ** 2 + 1e-30
        tau = sigma / (8 * np.maximum(rho, 1e-30)) + rho ** (5.0 / 3)
        for name, fn, args in (("get_cider_exponent", S.get_cider_exponent, (rho.copy(), sigma.copy(), tau.copy())),
                               ("get_cider_exponent_gga", S.get_cider_exponent_gga, (rho.copy(), sigma.copy()))):
            keep = [a.copy() for a in args]
            for nspin in (1, 2):
                fn(*args, nspin=nspin)
                for nm, a, b in zip(("rho", "sigma", "tau"), args, keep):
                    if not np.array_equal(a, b):
                        fails.append({"key": "input-modified;%s;%s" % (name, nm), "msg": "%s modifies the caller's %s array below rhocut" % (name, nm)})
        return {"fail": fails, "evals": 4, "outcome": ["exponent-alias", len(fails)]}
    if what == "maps-alias":
        from checks import c12

        classes = c12._classes()
        n = 0
        for code, (names, doms, pgrid) in c12.SPEC.items():
            m = c12._make(classes[code], code, list(range(len(names))), pgrid()[-1])
            x = c12._lattice(code, list(range(len(names))))
            keep = x.copy()
            y = np.zeros(x.shape[1])
            m.fill_feat_(y, x)
            n += 1
            if not np.array_equal(x, keep):
                fails.append({"key": "input-modified;map=%s;fill_feat_" % code, "msg": "%s.fill_feat_ modifies the raw feature array" % code})
        return {"fail": fails, "evals": n, "outcome": ["maps-alias", n]}
    if what == "plan-alias":
        # NLDF plan: eval_rho_full / eval_vxc_full must not modify caller arrays
        from checks import c07

        mol = F.make_mol("HF")
        n = 0
        for fam, plan in itertools.product(["VJ", "VIJ", "VK", "VI"], ["gaussian"]):
            c = {"fam": fam, "sl": "npa", "rho_mult": "one", "plan": plan}
            st, grids, g1, g2 = c07._nldf_gens(c, mol)
            rho = c07._rho_on_grid(mol, grids, F.make_dm(mol, "D1", case["seed"]), "MGGA")
            f = g1.get_features(rho.copy())
            vf = np.cos(np.arange(f.size)).reshape(f.shape) * grids.weights * rho[0]
            vf_in = vf.copy()
            g1.get_potential(vf_in)
            n += 1
            if not np.array_equal(vf_in, vf):
                fails.append({"key": "input-modified;vfeat;nspin=1;fam=%s" % fam, "msg": "get_potential (nspin=1) modifies the caller's vfeat array"})
        return {"fail": fails, "evals": n, "outcome": ["plan-alias", n]}
    if what == "sdmx-alias":
        from ciderpress.pyscf.sdmx import PySCFSDMXInitializer

        mol = F.make_mol("HF")
        n = 0
        for fam in ("SDMX", "SDMXG1", "SDMXFull"):
            st = F.feature_settings(fam, normalize=False)
            for nspin in (1, 2):
                gen = PySCFSDMXInitializer(st.sdmx_settings, lowmem=False).initialize_sdmx_generator(mol, nspin)
                rng = np.random.RandomState(3)
                coords = np.ascontiguousarray(mol.atom_coords()[rng.randint(0, 2, 7)] + rng.randn(7, 3))
                dm = F.make_dm(mol, "D1", case["seed"]) / nspin
                dmk, ck_ = dm.copy(), coords.copy()
                f1 = gen.get_features(dm, mol, coords)
                vg = np.cos(np.arange(f1.size)).reshape(f1.shape)
                vgk = vg.copy()
                vm = np.zeros((mol.nao, mol.nao))
                gen.get_vxc_(vm, vg)
                f2 = gen.get_features(dm, mol, coords)
                n += 1
                if not (np.array_equal(dm, dmk) and np.array_equal(coords, ck_) and np.array_equal(vg, vgk)):
                    fails.append({"key": "input-modified;sdmx;fam=%s" % fam, "msg": "SDMX generator modified dm/coords/vxc_grid"})
                if not np.array_equal(f1, f2):
                    fails.append({"key": "history-dependent;sdmx;fam=%s;nspin=%d" % (fam, nspin), "msg": "SDMX features change when the call is repeated after get_vxc_"})
        return {"fail": fails, "evals": n, "outcome": ["sdmx-alias", n]}
    raise ValueError(what)


def run_case(case):
    if case["kind"] == "ni":
        return run_ni(case)
    if case["kind"] == "gen":
        return run_gen(case)
    return run_misc(case)
