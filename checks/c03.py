"""C03 - declared uniform-scaling powers hold; normalised features are scale invariant.
Engine E1, DESIGN.md section 5/C03.

Uniform scaling is EXACT on a Gaussian basis: exponents x lambda^2, geometry / lambda, grid points
/ lambda, weights / lambda^3, same density-matrix coefficients; then n_lambda(r) = lambda^3
n(lambda r) identically at co-scaled grid points.
States  = (lambda alphabet x settings class / spec / rho_mult / level / normaliser class).
Oracles = * algebraic layers (semilocal plan, exponent functions, every normaliser class, feature
            normaliser lists): the power law to 1e-10 (same code on scaled numbers);
          * NLDF / SDMX features through the real generators on the scaled molecule with the
            co-scaled grid: the measured exponent log(F_lambda / F) / log(lambda) at every point with
            density > 1e-3 must equal the DECLARED power within 0.05 for each lambda (declared powers
            are integers, the truncation error of the expansion is ~1e-3, so this decides the table
            entry), and the normalised features must be scale invariant within 5e-2 (smallest integer
            mismatch: 0.33; measured noise of the co-scaled pipeline: 2.3e-2); the exponent window, the
            cutoffs, the radial-grid parameter and the covalent-radius table of the initialiser are
            co-scaled, only the snapping of the auxiliary ladder to powers of beta remains;
          * consequence: a model reading only scale-invariant features with LDA exchange baseline
            obeys E_x[n_lambda] = lambda E_x[n] (1e-9 for semilocal models, 1e-2 with nonlocal
            features), through nr_rks.
"""
import itertools

import numpy as np

ID = "C03"
VARIANT = "plain"
LEVEL_RULE = (
    "states = (lambda x settings/spec/rho_mult/level/normaliser) combinations; algebraic layers are compared exactly, "
    "feature generators on the co-scaled molecule/grid through the measured scaling exponent; outcome = rounded measured powers"
)
ASSUMPTIONS = [
    "lambda alphabet {1/2, 2/3, 3/2, 2, 3} (3 only for the algebraic layers)",
    "the stock initialiser snaps its auxiliary basis to integer powers of beta, so the expansion of the scaled molecule is a different (equally accurate) expansion: nonlocal features are compared through the measured exponent, not to rounding",
    "molecules He and HF with a rotated full-rank density matrix",
]
LAMBDAS = [0.5, 2.0 / 3, 1.5, 2.0, 3.0]


AUX = 1.6  # auxiliary even-tempered ratio (the stock default)


def initial_cases(tier, seed):
    cases = []
    for sl in ("npa", "nst", "np", "ns"):
        cases.append({"kind": "slplan", "sl": sl})
    for level in ("MGGA", "GGA"):
        cases.append({"kind": "expnt", "level": level})
    for cls, sl in itertools.product(("C", "D", "I", "G"), ("npa", "nst", "np", "ns")):
        cases.append({"kind": "normclass", "cls": cls, "sl": sl})
    for fam, sl, rm in itertools.product(["VJ", "VI", "VIJ", "VK", "VIJ2", "VI0", "VJ2", "VIx", "SDMX", "SDMXG", "SDMX1", "SDMXG1", "SDMXFull", "SADM", "SDMXG1-all"],
                                         ["npa", "nst", "np", "ns"], ["one", "expnt"]):
        if rm == "expnt" and not fam.startswith("V"):
            continue
        cases.append({"kind": "usps", "fam": fam, "sl": sl, "rho_mult": rm})
    lams = [0.5, 1.5, 2.0] if tier == "quick" else [0.5, 2.0 / 3, 1.5, 2.0]
    for mol, fam, level, rm, plan in itertools.product(["He", "HF"], ["VJ", "VI", "VIJ2", "VK"], ["MGGA", "GGA"], ["one", "expnt"], ["gaussian", "spline"]):
        if tier == "quick" and (mol == "HF" and (plan == "spline" or level == "GGA")):
            continue
        for lam in lams:
            cases.append({"kind": "nldf", "mol": mol, "fam": fam, "level": level, "rho_mult": rm, "plan": plan, "lam": lam})
    for mol, cls in itertools.product(["He", "HF"], ["SDMX", "SDMX1", "SDMXG", "SDMXG1", "SDMXFull", "SDMX1-all", "SDMXG-all", "SDMXG1-all"]):
        for lam in lams:
            cases.append({"kind": "sdmx", "mol": mol, "cls": cls, "lam": lam})
    # fractional-Laplacian (orbital) features: scalar, l=1 contractions, F^d contractions with a different number of F^d
    # and l=1 vectors, F^dd; with and without the recommended normalisers
    for mol, kind in itertools.product(["LiH", "HF"], ["FL0", "FL", "FLd", "FLd2"]):
        for lam in lams:
            cases.append({"kind": "nlof", "mol": mol, "cls": kind, "lam": lam})
    for fam in ("SL", "VJ", "VIJ", "VK", "SDMX1"):
        for lam in lams:
            cases.append({"kind": "energy", "mol": "HF", "fam": fam, "lam": lam})
    for c in cases:
        c["seed"] = seed
    return cases


def case_label(c):
    return ";".join("%s=%s" % (k, c[k]) for k in c if k != "seed")


def _scale_rho(r, lam):
    out = r.copy()
    out[0] *= lam ** 3
    out[1:4] *= lam ** 4
    if out.shape[0] > 4:
        out[4] *= lam ** 5
    return out


def run_slplan(case):
    from checks import c07
    from ciderpress.dft.plans import SemilocalPlan
    from ciderpress.dft.settings import SemilocalSettings

    st = SemilocalSettings(case["sl"])
    usps = st.get_feat_usps()
    fails = []
    r = c07._rho_data(50, 0)
    f0 = SemilocalPlan(st, 1).get_feat(r[None])[0]
    out = []
    for lam in LAMBDAS:
        f = SemilocalPlan(st, 1).get_feat(_scale_rho(r, lam)[None])[0]
        for j, u in enumerate(usps):
            rel = np.abs(f[j] - lam ** u * f0[j]).max() / (np.abs(f0[j]).max() * lam ** u + 1e-300)
            if rel > 1e-9:
                fails.append({"key": "slplan-usp;sl=%s;feat=%d" % (case["sl"], j), "msg": "semilocal feature %d does not scale as lambda^%g (lambda=%g): rel %.3e" % (j, u, lam, rel)})
        out.append(float("%.6e" % f.sum()))
    return {"fail": fails, "evals": len(LAMBDAS), "outcome": out}


def run_expnt(case):
    from checks import c07
    from ciderpress.dft import settings as S

    fails = []
    r = c07._rho_data(50, 0)
    rho, sigma, tau = r[0], (r[1:4] ** 2).sum(0), r[4]
    out = []
    for params, nspin in itertools.product(([1.0, 0.03125, 0.02], [2.0, 0.0, 0.04], [0.5, 0.1, 0.0]), (1, 2)):
        for lam in LAMBDAS:
            if case["level"] == "MGGA":
                a0 = S.get_cider_exponent(rho.copy(), sigma.copy(), tau.copy(), a0=params[0], grad_mul=params[1], tau_mul=params[2], nspin=nspin, rhocut=1e-30)[0]
                a1 = S.get_cider_exponent(lam ** 3 * rho, lam ** 8 * sigma, lam ** 5 * tau, a0=params[0], grad_mul=params[1], tau_mul=params[2], nspin=nspin, rhocut=1e-30)[0]
            else:
                a0 = S.get_cider_exponent_gga(rho.copy(), sigma.copy(), a0=params[0], grad_mul=params[1], nspin=nspin, rhocut=1e-30)[0]
                a1 = S.get_cider_exponent_gga(lam ** 3 * rho, lam ** 8 * sigma, a0=params[0], grad_mul=params[1], nspin=nspin, rhocut=1e-30)[0]
            rel = np.abs(a1 - lam ** 2 * a0).max() / np.abs(lam ** 2 * a0).max()
            if rel > 1e-12:
                fails.append({"key": "exponent-usp;level=%s" % case["level"], "msg": "length-scale exponent does not scale as lambda^2 (lambda=%g, params %s, nspin %d): rel %.3e" % (lam, params, nspin, rel)})
        out.append(float("%.6e" % a0.sum()))
    return {"fail": fails, "evals": 6 * len(LAMBDAS), "outcome": out}


def run_normclass(case):
    """get_usp of each normaliser class vs its forward pass under scaling (rho -> l^3 rho, inh invariant)."""
    from checks import c12
    from ciderpress.dft.feat_normalizer import FeatNormalizerList

    fails = []
    sl = case["sl"]
    nsl = 3 if sl in ("npa", "nst") else 2
    out = []
    for variant in (0, 1):
        n = c12._norm_obj(case["cls"], variant)
        nl = FeatNormalizerList([None] * nsl + [n], sl)
        u = nl.get_usps()[nsl]
        X = np.zeros((1, nsl + 1, 6))
        X[0, 0] = [0.01, 0.1, 0.5, 1.0, 3.0, 20.0]
        if sl in ("npa", "np"):
            X[0, 1] = [0.0, 0.2, 0.7, 1.5, 3.0, 0.4]  # p: scale invariant
            if nsl == 3:
                X[0, 2] = [1.0, 0.2, 0.0, 2.5, 1.1, 0.6]  # alpha: scale invariant
        else:
            X[0, 1] = X[0, 0] ** (8.0 / 3) * np.array([0.0, 0.2, 0.7, 1.5, 3.0, 0.4])
            if nsl == 3:
                X[0, 2] = X[0, 0] ** (5.0 / 3) * np.array([1.0, 0.2, 0.0, 2.5, 1.1, 0.6]) * 2.871
        X[0, nsl] = 1.3
        y0 = nl.get_normalized_feature_vector(X.copy())[0, nsl]
        for lam in LAMBDAS:
            Xl = X.copy()
            Xl[0, 0] *= lam ** 3
            if sl in ("nst", "ns"):
                Xl[0, 1] *= lam ** 8
                if nsl == 3:
                    Xl[0, 2] *= lam ** 5
            y1 = nl.get_normalized_feature_vector(Xl)[0, nsl]
            rel = np.abs(y1 - lam ** u * y0).max() / (np.abs(y0).max() * lam ** u)
            if rel > 1e-11:
                fails.append({"key": "normalizer-usp;cls=%s;sl=%s" % (type(n).__name__, sl), "msg": "%s.get_usp() = %g but the forward pass scales differently (lambda=%g): rel %.3e" % (type(n).__name__, u, lam, rel)})
        out.append(float("%.6e" % y0.sum()))
    return {"fail": fails, "evals": 2 * len(LAMBDAS), "outcome": out}


def run_usps(case):
    """Bookkeeping of the powers: raw + normaliser powers; all nonlocal features 0 after the recommended normalisation."""
    from mc import fixtures as F

    fails = []
    ck = "fam=%s;sl=%s;rho_mult=%s" % (case["fam"], case["sl"], case["rho_mult"])
    st = F.feature_settings(case["fam"], slmode=case["sl"], rho_mult=case["rho_mult"], normalize=False)
    raw = np.asarray(st.get_feat_usps(), dtype=float)
    try:
        norms = st.get_reasonable_normalizer()
    except NotImplementedError:
        return {"fail": [], "evals": 1, "outcome": [ck, "no recommended normaliser"]}
    st.assign_reasonable_normalizer()
    tot = np.asarray(st.get_feat_usps(with_normalizers=True), dtype=float)
    nsl = st.sl_settings.nfeat
    if np.abs(tot[nsl:]).max() > 1e-12:
        j = int(np.argmax(np.abs(tot[nsl:]))) + nsl
        fails.append({"key": "normalized-usp-nonzero;" + ck, "msg": "feature %d has scaling power %g after the recommended normalisation (raw power %g)" % (j, tot[j], raw[j])})
    # the UEG values obey the declared powers (closed forms): F(l^3 rho) = l^u F(rho)
    u1 = np.asarray(st.ueg_vector(0.7), dtype=float)
    for lam in LAMBDAS:
        u2 = np.asarray(st.ueg_vector(0.7 * lam ** 3), dtype=float)
        bad = np.abs(u2 - lam ** raw * u1) > 1e-9 * (np.abs(u1) * lam ** raw + 1e-300)
        if bad.any():
            j = int(np.where(bad)[0][0])
            fails.append({"key": "ueg-usp;%s;feat=%d" % (ck, j), "msg": "uniform-gas value of feature %d does not follow the declared power %g (lambda=%g)" % (j, raw[j], lam)})
            break
    return {"fail": fails, "evals": 1 + len(LAMBDAS), "outcome": [ck, raw.tolist()]}


# ----------------------------------------------------------------------------- scaled molecules
def _scaled_mol(name, lam):
    from pyscf import gto

    from mc import fixtures as F

    mol0 = F.make_mol(name)
    new_basis = {}
    for k, v in mol0._basis.items():
        bas = []
        for cg in v:
            l, rows = cg[0], cg[1:]
            bas.append([l] + [[row[0] * lam * lam] + list(row[1:]) for row in rows])
        new_basis[k] = bas
    atoms = [(mol0.atom_symbol(i), (mol0.atom_coord(i) / lam).tolist()) for i in range(mol0.natm)]
    return mol0, gto.M(atom=atoms, basis=new_basis, unit="Bohr", spin=mol0.spin, verbose=0)


class _scaled_radii:
    """The covalent-radius table that sets the default auxiliary exponents is a table of lengths: expressed in the
    scaled unit of length it is divided by lambda (co-scaling of a numerical parameter, not of the physics)."""

    def __init__(self, lam):
        self.lam = lam

    def __enter__(self):
        import ciderpress.pyscf.nldf_convolutions as nc

        self.nc, self.old = nc, nc.COVALENT_RADII
        nc.COVALENT_RADII = np.asarray(self.old) / self.lam

    def __exit__(self, *a):
        self.nc.COVALENT_RADII = self.old


def _scaled_grids(grids, mol_l, lam, lmax):
    """The co-scaled grid: points / lambda, weights / lambda^3, indexer scaled accordingly."""
    import copy

    from ciderpress.pyscf.gen_cider_grid import CiderGrids

    g = CiderGrids(mol_l, lmax=lmax)
    g.atom_grid = grids.atom_grid
    g.prune = grids.prune
    g.level = grids.level
    g.build(with_non0tab=True, full_lmax=lmax)  # builds an indexer of the right structure
    g.coords = np.ascontiguousarray(grids.coords / lam)
    g.weights = np.ascontiguousarray(grids.weights / lam ** 3)
    ind = copy.copy(grids.grids_indexer)
    ind.rad_arr = np.ascontiguousarray(grids.grids_indexer.rad_arr / lam)
    ind.all_weights = np.ascontiguousarray(grids.grids_indexer.all_weights / lam ** 3)
    g.grids_indexer = ind
    g.non0tab = g.make_mask(mol_l, g.coords)
    g.screen_index = g.non0tab
    return g


def _rho_of(mol, grids, dm, level):
    from checks import c07

    return c07._rho_on_grid(mol, grids, dm, level)


def run_nldf(case):
    from ciderpress.pyscf.gen_cider_grid import CiderGrids
    from ciderpress.pyscf.nldf_convolutions import PySCFNLDFInitializer

    from mc import fixtures as F

    fails = []
    lam = case["lam"]
    level = case["level"]
    ck = "mol=%s;fam=%s;level=%s;rho_mult=%s;plan=%s" % (case["mol"], case["fam"], level, case["rho_mult"], case["plan"])
    mol0, mol_l = _scaled_mol(case["mol"], lam)
    sl = "npa" if level == "MGGA" else "np"
    st = F.feature_settings(case["fam"], slmode=sl, rho_mult=case["rho_mult"], normalize=False)
    nst = st.nldf_settings
    usps = np.asarray(nst.get_feat_usps(), dtype=float)
    lmax = 6
    g0 = CiderGrids(mol0, lmax=lmax)
    g0.atom_grid = (30, 110)
    g0.prune = None
    g0.build(with_non0tab=True, full_lmax=lmax)
    gl = _scaled_grids(g0, mol_l, lam, lmax)
    dm = F.make_dm(mol0, "D1", case["seed"])
    r0 = _rho_of(mol0, g0, dm, level)
    rl = _rho_of(mol_l, gl, dm, level)
    # the premise: n_lambda(r/lambda) = lambda^3 n(r) identically
    if np.abs(rl[0] - lam ** 3 * r0[0]).max() > 1e-10 * lam ** 3 * r0[0].max():
        return {"fail": [{"key": "harness-scaling-premise;" + ck, "msg": "scaled molecule does not reproduce lambda^3 n(lambda r): %.3e" % np.abs(rl[0] - lam ** 3 * r0[0]).max()}], "evals": 0, "outcome": "premise"}
    # every length-dimensioned numerical parameter of the initialiser is co-scaled (exponent window x lambda^2,
    # density cutoff x lambda^3, radial-grid parameter / lambda); the covalent-radius table behind the default auxiliary exponents
    # is expressed in the scaled unit; only the snapping of the auxiliary ladder to integer powers of beta remains
    amin0 = nst.theta_params[0] / 256
    kw = dict(aux_lambd=AUX, lmax=lmax, plan_type=case["plan"], alpha_min=amin0, alpha_max=10000.0, rhocut=1e-10, aparam=0.03)
    kwl = dict(kw, alpha_min=amin0 * lam ** 2, alpha_max=10000.0 * lam ** 2, rhocut=1e-10 * lam ** 3, aparam=0.03 / lam)
    try:
        gen0 = PySCFNLDFInitializer(nst, **kw).initialize_nldf_generator(mol0, g0.grids_indexer, 1)
        with _scaled_radii(lam):
            genl = PySCFNLDFInitializer(nst, **kwl).initialize_nldf_generator(mol_l, gl.grids_indexer, 1)
        gen0.interpolator.set_coords(g0.coords)
        genl.interpolator.set_coords(gl.coords)
        f0 = gen0.get_features(r0)
        fl = genl.get_features(rl)
    except RuntimeError as e:
        if "exponent is too large" in str(e):
            return {"fail": [], "evals": 1, "outcome": [ck, lam, "rejected"]}
        raise
    sel = (r0[0] > 1e-3) & (g0.weights > 0)
    measured = []
    for j in range(f0.shape[0]):
        a, b = f0[j, sel], fl[j, sel]
        big = np.abs(a) > 0.05 * np.abs(a).max()
        with np.errstate(all="ignore"):
            u = np.log(np.abs(b[big] / a[big])) / np.log(lam)
        um = float(np.median(u))
        measured.append(float("%.3f" % um))
        # measured on the unchanged tree: |u - declared| <= 0.02 (median) for every spec and lambda
        if not abs(um - usps[j]) <= 0.05:
            fails.append({"key": "declared-power;%s;feat=%d" % (ck, j), "msg": "feature %d is declared to scale as lambda^%g but scales as lambda^%.3f (lambda=%g, median over %d points)" % (j, usps[j], um, lam, int(big.sum()))})
        elif np.any(np.sign(a[big]) != np.sign(b[big])):
            fails.append({"key": "sign-change;%s;feat=%d" % (ck, j), "msg": "feature %d changes sign under scaling" % j})
    dmax = 0.0
    # normalised features: power 0
    st2 = F.feature_settings(case["fam"], slmode=sl, rho_mult=case["rho_mult"], normalize=True)
    if st2.normalizers.nfeat == st2.nfeat and not any(n is None for n in st2.normalizers._normalizers[st2.sl_settings.nfeat:]):
        from ciderpress.dft.plans import SemilocalPlan

        def normed(r, f):
            slf = SemilocalPlan(st2.sl_settings, 1).get_feat(r[None])
            X = np.concatenate([slf, f[None]], axis=1)
            return st2.normalizers.get_normalized_feature_vector(X)[0, st2.sl_settings.nfeat:]

        n0 = normed(r0, f0)[:, sel]
        nl_ = normed(rl, fl)[:, sel]
        for j in range(n0.shape[0]):
            d = np.abs(n0[j] - nl_[j]).max() / (np.abs(n0[j]).max() + 1e-300)
            dmax = max(dmax, d)
            # declared powers are integers, so the smallest possible mismatch changes a normalised feature by
            # |lambda^(+-1) - 1| >= 0.33 on the lambda alphabet; the measured numerical noise of the co-scaled
            # pipeline (auxiliary ladder snapped to powers of beta) is <= 2.3e-2 and does not shrink with beta
            if d > 5e-2:
                fails.append({"key": "normalized-not-invariant;%s;feat=%d" % (ck, j), "msg": "normalised feature %d changes by %.3e of its scale under uniform scaling with lambda=%g" % (j, d, lam)})
    return {"fail": fails, "evals": 2, "outcome": [ck, lam, measured], "info": {"max_normalised_change": float(dmax)}}


def run_sdmx(case):
    from ciderpress.pyscf.sdmx import PySCFSDMXInitializer

    from mc import fixtures as F

    fails = []
    lam = case["lam"]
    ck = "mol=%s;cls=%s" % (case["mol"], case["cls"])
    mol0, mol_l = _scaled_mol(case["mol"], lam)
    st = F.sdmx_settings(case["cls"])
    usps = np.asarray(st.get_feat_usps(), dtype=float)
    rng = np.random.RandomState(3)
    coords = np.ascontiguousarray(mol0.atom_coords()[rng.randint(0, mol0.natm, 14)] + rng.randn(14, 3) * 0.6)
    dm = F.make_dm(mol0, "D1", case["seed"])
    g0 = PySCFSDMXInitializer(st, lowmem=False).initialize_sdmx_generator(mol0, 1)
    gl = PySCFSDMXInitializer(st, lowmem=False).initialize_sdmx_generator(mol_l, 1)
    f0 = g0.get_features(dm, mol0, coords)
    fl = gl.get_features(dm, mol_l, np.ascontiguousarray(coords / lam))
    measured = []
    for j in range(f0.shape[0]):
        a, b = f0[j], fl[j]
        big = np.abs(a) > 0.05 * np.abs(a).max()
        with np.errstate(all="ignore"):
            u = np.log(np.abs(b[big] / a[big])) / np.log(lam)
        um = float(np.median(u))
        measured.append(float("%.3f" % um))
        if not abs(um - usps[j]) <= 0.05:
            fails.append({"key": "declared-power;sdmx;%s;feat=%d" % (ck, j), "msg": "SDMX feature %d is declared to scale as lambda^%g but scales as lambda^%.3f (lambda=%g)" % (j, usps[j], um, lam)})
    return {"fail": fails, "evals": 2, "outcome": [ck, lam, measured]}


class _PointGrid:
    def __init__(self, mol, coords):
        self.mol, self.coords, self.weights = mol, np.ascontiguousarray(coords), np.ones(len(coords))
        self.non0tab, self.cutoff = None, 0


def run_nlof(case):
    """Fractional-Laplacian features through the package's own descriptor getter (orbital operators evaluated analytically
    in the Gaussian basis, so the scaling relation holds to rounding): declared powers of every feature group, and power 0
    after the recommended normalisation (normalisers applied to [rho, sigma, tau, features] of the same points)."""
    from ciderpress.dft import settings as S
    from ciderpress.dft.plans import SemilocalPlan
    from ciderpress.pyscf.descriptors import _fl_desc_getter, _sl_desc_getter

    from mc import fixtures as F

    fails = []
    lam = case["lam"]
    ck = "mol=%s;cls=%s" % (case["mol"], case["cls"])
    mol0, mol_l = _scaled_mol(case["mol"], lam)
    st = F.nlof_settings(case["cls"])
    usps = np.asarray(st.get_feat_usps(), dtype=float)
    rng = np.random.RandomState(3)
    coords = mol0.atom_coords()[rng.randint(0, mol0.natm, 16)] + rng.randn(16, 3) * 0.6
    dm = F.make_dm(mol0, "D1", case["seed"])
    f0 = np.asarray(_fl_desc_getter(mol0, _PointGrid(mol0, coords), dm, st))
    fl = np.asarray(_fl_desc_getter(mol_l, _PointGrid(mol_l, coords / lam), dm, st))
    measured = []
    if f0.shape[0] != st.nfeat or len(usps) != st.nfeat:
        fails.append({"key": "nlof-feature-count;%s" % ck, "msg": "%d features computed, %d declared, %d powers" % (f0.shape[0], st.nfeat, len(usps))})
        return {"fail": fails, "evals": 2, "outcome": [ck, lam, "count"]}
    for j in range(f0.shape[0]):
        a, b = f0[j], fl[j]
        big = np.abs(a) > 1e-6 * np.abs(a).max()
        with np.errstate(all="ignore"):
            u = np.log(np.abs(b[big] / a[big])) / np.log(lam)
        um = float(np.median(u))
        measured.append(float("%.6f" % um))
        # measured spread on the unchanged tree: 2e-14
        if not (abs(um - usps[j]) <= 1e-8 and np.abs(u - um).max() <= 1e-8):
            fails.append({"key": "declared-power;nlof;%s;feat=%d" % (ck, j),
                          "msg": "fractional-Laplacian feature %d is declared to scale as lambda^%g but scales as lambda^%.6f (spread %.1e, lambda=%g)" % (
                              j, usps[j], um, np.abs(u - um).max(), lam)})
    # recommended normalisation -> power 0
    try:
        fs = S.FeatureSettings(sl_settings=S.SemilocalSettings("nst"), nlof_settings=st)
        fs.assign_reasonable_normalizer()
    except NotImplementedError:
        fs = None
    if fs is not None and not fails:
        def full(mol, c):
            from pyscf.dft import numint as pnumint
            ao = pnumint.eval_ao(mol, np.ascontiguousarray(c), deriv=1)
            rho = pnumint.eval_rho(mol, ao, dm, xctype="MGGA", with_lapl=False)
            x = np.empty((1, 3 + st.nfeat, len(c)))
            x[0, 0] = rho[0]
            x[0, 1] = (rho[1:4] ** 2).sum(0)
            x[0, 2] = rho[-1]
            return x
        x0, xl = full(mol0, coords), full(mol_l, coords / lam)
        x0[0, 3:], xl[0, 3:] = f0, fl
        n0 = fs.normalizers.get_normalized_feature_vector(x0)[0, 3:]
        nl_ = fs.normalizers.get_normalized_feature_vector(xl)[0, 3:]
        for j in range(n0.shape[0]):
            d = np.abs(n0[j] - nl_[j]).max() / (np.abs(n0[j]).max() + 1e-300)
            if not d <= 1e-8:
                fails.append({"key": "normalized-not-invariant;nlof;%s;feat=%d" % (ck, j),
                              "msg": "normalised fractional-Laplacian feature %d changes by %.3e of its scale under uniform scaling with lambda=%g" % (j, d, lam)})
    return {"fail": fails, "evals": 2, "outcome": [ck, lam, measured]}


def run_energy(case):
    """E_x[n_lambda] = lambda E_x[n] for a model reading only scale-invariant features, LDA_X baseline."""
    from ciderpress.pyscf.gen_cider_grid import CiderGrids

    from mc import fixtures as F

    fails = []
    lam = case["lam"]
    fam = case["fam"]
    ck = "fam=%s" % fam
    mol0, mol_l = _scaled_mol(case["mol"], lam)
    st = F.feature_settings(fam, slmode="npa", normalize=True)
    ml = F.make_mlxc(st, evals=("RBF",), mode="SEP", mul="LDA_X", add="ZERO", seed=case["seed"])
    dm = F.make_dm(mol0, "D1", case["seed"])
    lmax = 6
    amin0 = 1.0 / 256
    ks0 = F.make_ks(mol0, ml, nspin=1, atom_grid=(30, 110), lmax=lmax, xmix=1.0, rhocut=1e-9,
                    nldf_kwargs=dict(aux_lambd=AUX, nrad=200, alpha_max=10000.0, alpha_min=amin0, aparam=0.03, rhocut=1e-10))
    ksl = F.make_ks(mol_l, ml, nspin=1, atom_grid=(30, 110), lmax=lmax, xmix=1.0, rhocut=1e-9 * lam ** 3,
                    nldf_kwargs=dict(aux_lambd=AUX, nrad=200, alpha_max=10000.0 * lam ** 2, alpha_min=amin0 * lam ** 2, aparam=0.03 / lam, rhocut=1e-10 * lam ** 3))
    if isinstance(ks0.grids, CiderGrids):
        ksl.grids = _scaled_grids(ks0.grids, mol_l, lam, lmax)
    else:
        ksl.grids.coords = np.ascontiguousarray(ks0.grids.coords / lam)
        ksl.grids.weights = np.ascontiguousarray(ks0.grids.weights / lam ** 3)
        ksl.grids.non0tab = ksl.grids.make_mask(mol_l, ksl.grids.coords)
        ksl.grids.screen_index = ksl.grids.non0tab
    n0, e0, v0 = F.nr(ks0, dm)
    with _scaled_radii(lam):
        nl, el, vl = F.nr(ksl, dm)
    # nonlocal families: the auxiliary ladder of the scaled run is snapped to powers of beta (normalised features move by
    # up to 2.3e-2 of their scale); how much of that reaches the energy depends on the seeded model: measured 1e-4 ... 3.9e-3
    # on the seeds tried (worst: seed 2, version k, lambda = 1.5).  The decisive clauses are the feature-level ones; this consequence clause uses 1e-2.
    tol = 1e-9 if fam == "SL" else 1e-2
    rel = abs(el - lam * e0) / abs(lam * e0)
    if abs(nl - n0) > 1e-9 * abs(n0):
        fails.append({"key": "harness-scaling-premise;energy;" + ck, "msg": "electron count changes under scaling: %.12g vs %.12g" % (nl, n0)})
    if not rel <= tol:
        fails.append({"key": "exchange-scaling;" + ck, "msg": "E_x[n_lambda] = %.10g but lambda E_x[n] = %.10g (lambda=%g, rel %.3e, tol %.0e)" % (el, lam * e0, lam, rel, tol)})
    return {"fail": fails, "evals": 2, "outcome": [ck, lam, float("%.3e" % rel)]}


def run_case(case):
    k = case["kind"]
    return {"slplan": run_slplan, "expnt": run_expnt, "normclass": run_normclass, "usps": run_usps, "nldf": run_nldf, "sdmx": run_sdmx, "nlof": run_nlof, "energy": run_energy}[k](case)
