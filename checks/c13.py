"""C13 - uniform-electron-gas reference values match the computed features.
Engine E1, DESIGN.md section 5/C13.

States = (settings class / spec / parameter set / rho_mult / semilocal level, density value).
Oracles (independent evaluation of the DOCUMENTED definitions at uniform density):
  semilocal : the real SemilocalPlan evaluated on constant (rho, 0, tau_ueg) arrays;
  NLDF      : 1-D radial quadrature 4 pi rho b int r^2 k(r) dr of the documented kernels
              (docs/features/nldf.rst and the spec docstrings of settings.py), exponents from
              my own transcription of the documented a_i formula;
  SDMX      : the documented H_j^0 / H_j^0d integrals for the uniform-gas density matrix
              3 rho j1(kF u)/(kF u), nested 1-D quadratures, times the -1/4 n_spin^2 convention;
  FracLapl  : momentum-space quadrature over the Fermi sphere of the documented operators acting on the uniform-gas density
              matrix 2 int_{k<kF} d3k/(2 pi)^3 e^{ik(r-r')}: (-Lapl')^s -> (1/pi^2) int k^(2+2s) dk; the l=1 / F^d vector features
              vanish by isotropy, so every contraction of them is 0; the F^dd feature (grad . grad' (-Lapl')^s) ->
              (1/pi^2) int k^(4+2s) dk; plus the declared density-scaling powers;
  normalisers: FeatureSettings.ueg_vector(with_normalizers=True) equals the raw vector pushed
              through the real FeatNormalizerList; consequence: a model centred on these values
              returns its baseline for uniform-gas input.
"""
import itertools

import numpy as np

ID = "C13"
VARIANT = "plain"
LEVEL_RULE = (
    "states = (settings class x spec/parameter alphabet x rho_mult x level x density value); each compares the reported "
    "UEG value with an independent quadrature of the documented definition; outcome = rounded UEG value"
)
ASSUMPTIONS = [
    "density alphabet {0.01, 0.3, 1, 7, 100}; parameter alphabets of two triples per exponent",
    "documented kernels as transcribed in mc/nldf_defs.py (also used by C02 against the fast code paths)",
    "scipy.integrate.quad to 1e-10 (NLDF) / nested quadrature to 1e-5 (SDMX)",
]
RHOS = [0.01, 0.3, 1.0, 7.0, 100.0]


def initial_cases(tier, seed):
    cases = []
    for sl in ("npa", "nst", "np", "ns"):
        cases.append({"kind": "sl", "sl": sl})
    params = [([1.0, 0.03125, 0.02], [2.0, 0.0625, 0.04]), ([0.7, 0.0, 0.05], [1.5, 0.1, 0.0])]
    for level, rm, (th, fp) in itertools.product(("MGGA", "GGA"), ("one", "expnt"), params):
        for spec in ("se", "se_ar2", "se_a2r4", "se_erf_rinv"):
            cases.append({"kind": "vj", "level": level, "rho_mult": rm, "theta": th, "fp": fp, "spec": spec})
            cases.append({"kind": "vk", "level": level, "rho_mult": rm, "theta": th, "fp": fp, "spec": "se"})
        for spec in ("se", "se_r2", "se_apr2", "se_ap", "se_ap2r2", "se_lapl"):
            cases.append({"kind": "vi", "level": level, "rho_mult": rm, "theta": th, "spec": spec})
        cases.append({"kind": "vi-l1", "level": level, "rho_mult": rm, "theta": th})
        cases.append({"kind": "vij", "level": level, "rho_mult": rm, "theta": th, "fp": fp})
    for cls in ("SDMX", "SDMXG", "SDMX1", "SDMXG1", "SDMXFull", "SADM", "SDMXG-all", "SDMXG1-all", "SDMX1-all"):
        cases.append({"kind": "sdmx", "cls": cls})
    # fractional-Laplacian settings: exponents on both sides of every special value of the closed form (-1/2, 0, 1/2, 1,
    # 3/2, 2) and the special values themselves; all feature groups present / absent
    for slist in ([-1.0, -0.5, 0.25, 0.5, 1.0, 1.25, 1.75], [1.5, 2.0, 0.0, -1.25, 0.75], [0.5]):
        n = len(slist)
        for nk0, nk1, nd1, ndd in ((n, 0, 0, 0), (n, min(2, n), 0, 0), (max(1, n - 2), min(2, n), min(2, n), 0), (n, 1, min(3, n), min(2, n)), (1, 0, 1, 1)):
            cases.append({"kind": "nlof", "slist": slist, "nk0": nk0, "nk1": nk1, "nd1": nd1, "ndd": ndd})
    cases.append({"kind": "vmapheg"})
    for fam, sl, rm in itertools.product(["VJ", "VI", "VIJ", "VK", "VIJ2", "VI0", "SDMX", "SDMXG1", "SDMXFull", "VIJ+SDMX1"], ["npa", "nst", "np", "ns"], ["one", "expnt"]):
        if rm == "expnt" and not fam.startswith("V"):
            continue
        cases.append({"kind": "norm", "fam": fam, "sl": sl, "rho_mult": rm})
    for nclass in ("C", "D", "I", "G"):
        for sl in ("npa", "nst", "np", "ns"):
            cases.append({"kind": "normclass", "cls": nclass, "sl": sl})
    seen, out = set(), []
    for c in cases:
        c["seed"] = seed
        k = repr(sorted((a, repr(b)) for a, b in c.items()))
        if k not in seen:
            seen.add(k)
            out.append(c)
    return out


def case_label(c):
    return ";".join("%s=%s" % (k, c[k]) for k in c if k != "seed")


def _rel(a, b):
    return abs(a - b) / (abs(b) + 1e-300)


def run_sl(case):
    from ciderpress.dft.plans import SemilocalPlan
    from ciderpress.dft.settings import SemilocalSettings

    from mc import nldf_defs as D

    st = SemilocalSettings(case["sl"])
    fails = []
    out = []
    for rho in RHOS:
        r = np.zeros((1, 5, 3))
        r[0, 0] = rho
        r[0, 4] = D.tau_ueg(rho)
        f = SemilocalPlan(st, 1).get_feat(r)[0, :, 0]
        u = np.asarray(st.ueg_vector(rho), dtype=float)
        if u.shape != f.shape or np.abs(f - u).max() > 1e-11 * (1 + np.abs(u).max()):
            fails.append({"key": "sl-ueg;sl=%s" % case["sl"], "msg": "SemilocalSettings(%s).ueg_vector(%g) = %s but the plan computes %s for the uniform gas" % (case["sl"], rho, u, f)})
        out.append([float("%.9e" % x) for x in u])
    return {"fail": fails, "evals": len(RHOS), "outcome": out}


def run_nldf(case):
    from ciderpress.dft import settings as S

    from mc import nldf_defs as D

    kind, level, rm, th = case["kind"], case["level"], case["rho_mult"], case["theta"]
    g = (lambda p: list(p)) if level == "MGGA" else (lambda p: list(p[:2]))
    fails = []
    out = []
    ck = "kind=%s;level=%s;rho_mult=%s;spec=%s" % (kind, level, rm, case.get("spec", "-"))
    if kind == "vj":
        fp = g(case["fp"]) + ([0.7] if case["spec"] == "se_erf_rinv" else [])
        st = S.NLDFSettingsVJ(level, g(th), rm, [case["spec"]], [fp])
    elif kind == "vk":
        st = S.NLDFSettingsVK(level, g(th), rm, [g(case["fp"])], "exponential")
    elif kind == "vi":
        st = S.NLDFSettingsVI(level, g(th), rm, [case["spec"]], [], [])
    elif kind == "vi-l1":
        st = S.NLDFSettingsVI(level, g(th), rm, ["se_ap"], ["se_grad", "se_rvec"], [(0, 0), (-1, 0), (0, 1), (1, 1), (-1, 1)])
    else:
        st = S.NLDFSettingsVIJ(level, g(th), rm, ["se_r2", "se_ap"], ["se_grad"], [(0, 0), (-1, 0)], ["se", "se_ar2"], [g(case["fp"]), g(th)])
    for rho in RHOS:
        u = np.asarray(st.ueg_vector(rho), dtype=float)
        ref = np.asarray(D.ueg_features(st, rho), dtype=float)
        if u.shape != ref.shape:
            fails.append({"key": "nldf-ueg-length;" + ck, "msg": "ueg_vector has %d entries, the settings define %d features" % (u.size, ref.size)})
            continue
        for j in range(u.size):
            if not _rel(u[j], ref[j]) <= 1e-8 and abs(u[j] - ref[j]) > 1e-12:
                fails.append({"key": "nldf-ueg;%s;feat=%d" % (ck, j),
                              "msg": "ueg_vector(%g)[%d] = %.12g but quadrature of the documented integral gives %.12g (%s, theta %s, params %s)" % (
                                  rho, j, u[j], ref[j], ck, th, case.get("fp"))})
        out.append([float("%.9e" % x) for x in u])
        if len(st.get_feat_usps()) != u.size:
            fails.append({"key": "nldf-usp-length;" + ck, "msg": "len(get_feat_usps) != len(ueg_vector)"})
        else:
            # the UEG values must themselves obey the declared scaling powers: F(lambda^3 rho) = lambda^u F(rho)
            u2 = np.asarray(st.ueg_vector(rho * 8.0), dtype=float)
            usps = np.asarray(st.get_feat_usps(), dtype=float)
            for j in range(u.size):
                if u[j] != 0 and not _rel(u2[j], u[j] * 2.0 ** usps[j]) <= 1e-9:
                    fails.append({"key": "nldf-ueg-usp;%s;feat=%d" % (ck, j), "msg": "UEG value does not scale with the declared power %g: %.10g vs %.10g" % (usps[j], u2[j], u[j] * 2.0 ** usps[j])})
    return {"fail": fails, "evals": 2 * len(RHOS), "outcome": out}


_FULLPLAN = {}


def _sdmxfull_ueg(st, rho):
    """SDMXFull has no closed form per (ratio, power, variant): the features the package computes for the uniform gas are
    obtained by pushing the analytic projections of the uniform-gas density matrix onto the plan's auxiliary Gaussians
    through the REAL plan's fit matrices (dense ladder 5e-4 x 1.6^45, as the package's own reference does); the l=1
    features vanish by isotropy.  The feature order is the plan's."""
    from scipy.special import erf

    from ciderpress.dft.plans import SDMXFullPlan

    if id(st) not in _FULLPLAN:
        _FULLPLAN[id(st)] = SDMXFullPlan(st, 1, 0.0005, 1.6, 45)
    plan = _FULLPLAN[id(st)]
    k = (3 * np.pi ** 2 * rho) ** (1.0 / 3)

    def proj(a):
        rta = np.sqrt(a)
        fac = 6 * 2 ** 0.75 * a ** 0.75 * np.pi ** 0.25 / k ** 3
        return fac * (np.pi * erf(k / (2 * rta)) - k * np.sqrt(np.pi) / rta * np.exp(-k * k / (4 * a)))

    al = plan.alphas
    pr = (proj(al) / (np.pi / (2 * al)) ** -0.75 - proj(2 * al) / (np.pi / (4 * al)) ** -0.75) * plan.alpha_norms
    n0 = plan.num_l0_feat
    out = []
    for i in range(st.nfeat):
        if i < n0:
            t = plan.fit_matrices[i].dot(pr)
            out.append(-0.25 * float(t.dot(t)) * rho * rho)
        else:
            out.append(0.0)
    return out


def run_sdmx(case):
    from mc import fixtures as F
    from mc import nldf_defs as D

    st = F.sdmx_settings(case["cls"])
    fails = []
    out = []
    for rho in (0.3, 1.0, 7.0):
        u = np.asarray(st.ueg_vector(rho), dtype=float)
        ref = D.sdmx_ueg(st, rho)
        if ref is None and type(st).__name__ == "SDMXFullSettings":
            ref = _sdmxfull_ueg(st, rho)
        if ref is None:
            return {"fail": [], "evals": 0, "outcome": ["sdmx", case["cls"], "no documented closed form (deprecated SADM)"]}
        if u.shape != np.asarray(ref).shape:
            fails.append({"key": "sdmx-ueg-length;cls=%s" % case["cls"], "msg": "ueg_vector has %d entries, %d features defined" % (u.size, len(ref))})
            continue
        for j in range(u.size):
            # measured on the unchanged tree: the tabulated constants agree with the quadrature to 1e-13 (j = 0, 1),
            # 3.8e-6 (H_2^0) and 3.8e-5 (H_2^0d); a swapped or mistyped table row is a >= 10 % effect
            if not (abs(u[j] - ref[j]) <= 2e-4 * (abs(ref[j]) + 1e-12) + 1e-9):
                fails.append({"key": "sdmx-ueg;cls=%s;feat=%d" % (case["cls"], j),
                              "msg": "%s.ueg_vector(%g)[%d] = %.10g but the documented integral for the uniform gas gives %.10g" % (type(st).__name__, rho, j, u[j], ref[j])})
        out.append([float("%.7e" % x) for x in u])
    return {"fail": fails, "evals": 3, "outcome": out}


def run_nlof(case):
    from scipy.integrate import quad

    from ciderpress.dft import settings as S

    slist, nk0, nk1, nd1, ndd = case["slist"], case["nk0"], case["nk1"], case["nd1"], case["ndd"]
    l1 = [(-1, j) for j in range(nk1)] + [(j, k) for j in range(nk1) for k in range(j, nk1)]
    ld = [(-1, j) for j in range(nd1)] + [(j, k) for j in range(nd1) for k in range(j, nd1)]
    st = S.FracLaplSettings(list(slist), nk0, nk1, l1, nd1=nd1, ld_dots=ld, ndd=ndd)
    ck = "slist=%s;nk0=%d;nk1=%d;nd1=%d;ndd=%d" % (",".join("%g" % x for x in slist), nk0, nk1, nd1, ndd)
    fails, out, evals = [], [], 0
    usps = list(st.get_feat_usps())
    for rho in RHOS:
        kf = (3 * np.pi ** 2 * rho) ** (1.0 / 3)
        u = np.asarray(st.ueg_vector(rho), dtype=float)
        evals += 1
        ref = [quad(lambda k, s=s: k ** (2 + 2 * s), 0, kf, epsabs=0, epsrel=1e-12)[0] / np.pi ** 2 for s in slist[:nk0]]
        ref += [0.0] * (len(l1) + len(ld))
        ref += [quad(lambda k, s=s: k ** (4 + 2 * s), 0, kf, epsabs=0, epsrel=1e-12)[0] / np.pi ** 2 for s in slist[:ndd]]
        ref = np.array(ref)
        if u.shape != ref.shape or u.size != st.nfeat:
            fails.append({"key": "nlof-ueg-length;" + ck, "msg": "ueg_vector has %s entries, the settings define %d features" % (u.shape, st.nfeat)})
            break
        for j in range(ref.size):
            if not abs(u[j] - ref[j]) <= 1e-9 * max(abs(ref[j]), 1e-300) + (0 if ref[j] else 1e-300):
                grp = "scalar" if j < nk0 else ("dd" if j >= ref.size - ndd else "dot")
                sv = slist[j] if j < nk0 else (slist[j - (ref.size - ndd)] if grp == "dd" else float("nan"))
                fails.append({"key": "nlof-ueg;%s;group=%s;s=%g" % (ck, grp, sv),
                              "msg": "FracLaplSettings.ueg_vector(%g)[%d] = %.12g but the Fermi-sphere integral of the documented %s feature (s = %g) is %.12g" % (
                                  rho, j, u[j], grp, sv, ref[j])})
                break
        if len(usps) != u.size:
            fails.append({"key": "nlof-usp-length;" + ck, "msg": "len(get_feat_usps) = %d != len(ueg_vector) = %d" % (len(usps), u.size)})
        else:
            u2 = np.asarray(st.ueg_vector(rho * 8.0), dtype=float)
            for j in range(u.size):
                if not abs(u2[j] - u[j] * 2.0 ** usps[j]) <= 1e-10 * max(abs(u2[j]), 1e-300) + (0 if u[j] else 1e-300):
                    fails.append({"key": "nlof-ueg-usp;%s;feat=%d" % (ck, j), "msg": "UEG value does not scale with the declared power %g: %.10g vs %.10g" % (usps[j], u2[j], u[j] * 2.0 ** usps[j])})
                    break
        # the same vector through FeatureSettings
        fs = S.FeatureSettings(sl_settings=S.SemilocalSettings("nst"), nlof_settings=st)
        full = np.asarray(fs.ueg_vector(rho), dtype=float)
        if full.size != 3 + u.size or not np.array_equal(full[3:], u):
            fails.append({"key": "nlof-ueg-featuresettings;" + ck, "msg": "FeatureSettings.ueg_vector does not carry the fractional-Laplacian block unchanged"})
        out.append([float("%.9e" % x) for x in u])
        if fails:
            break
    return {"fail": fails, "evals": evals, "outcome": out}


def run_vmapheg(case):
    """get_vmap_heg_value(h, gamma) is the centre that makes a unit-scale VMap vanish at the uniform-gas feature value h
    (the documented recipe for centring a feature list): evaluate the real VMap there."""
    from ciderpress.dft import transform_data as T

    fails, out, evals = [], [], 0
    for heg, gamma in itertools.product([0.0, 1e-6, 0.5, 2.0, 3.0, 8.0, 1e4], [1e-3, 0.03125, 0.5, 1.0, 7.0]):
        c = T.get_vmap_heg_value(heg, gamma)
        m = T.VMap(0, gamma, scale=1.0, center=c)
        x = np.array([[heg, 2 * heg + 0.1, 0.0]])
        y = np.zeros(3)
        m.fill_feat_(y, x)
        evals += 1
        ref = gamma * heg / (1 + gamma * heg)
        if not (abs(y[0]) <= 4e-16 and abs(c - ref) <= 4e-16 * max(1, abs(ref))):
            fails.append({"key": "vmap-heg-centre;heg=%g;gamma=%g" % (heg, gamma),
                          "msg": "VMap centred with get_vmap_heg_value(%g, %g) = %.17g gives %.3e at the uniform-gas value (documented centre %.17g)" % (heg, gamma, c, y[0], ref)})
        out.append(float("%.12e" % c))
    return {"fail": fails, "evals": evals, "outcome": out}


def run_norm(case):
    from mc import fixtures as F

    st = F.feature_settings(case["fam"], slmode=case["sl"], rho_mult=case["rho_mult"], normalize=True)
    fails = []
    out = []
    ck = "fam=%s;sl=%s;rho_mult=%s" % (case["fam"], case["sl"], case["rho_mult"])
    for rho in RHOS:
        raw = np.asarray(st.ueg_vector(rho), dtype=float)
        a = np.asarray(st.ueg_vector(rho, with_normalizers=True), dtype=float)
        X = raw[None, :, None].copy()
        b = st.normalizers.get_normalized_feature_vector(X)[0, :, 0]
        d = np.abs(a - b) / (1 + np.abs(b))
        if d.max() > 1e-10:
            j = int(np.argmax(d))
            fails.append({"key": "normalized-ueg;%s;normalizer=%s" % (ck, type(st.normalizers[j]).__name__),
                          "msg": "ueg_vector(%g, with_normalizers=True)[%d] = %.10g but normalising the raw UEG vector gives %.10g" % (rho, j, a[j], b[j])})
        # scale invariance of the normalised nonlocal UEG features
        nsl = st.sl_settings.nfeat
        out.append([float("%.8e" % x) for x in b[nsl:]])
    usn = np.asarray(st.get_feat_usps(with_normalizers=True), dtype=float)
    if st.normalizers.nfeat == st.nfeat and not any(n is None for n in st.normalizers._normalizers[st.sl_settings.nfeat:]):
        vals = np.array(out)
        if np.abs(usn[st.sl_settings.nfeat:]).max() == 0 and vals.size and np.abs(vals - vals[0]).max() > 1e-8 * (1 + np.abs(vals).max()):
            fails.append({"key": "normalized-ueg-not-constant;" + ck, "msg": "normalised UEG features declared scale invariant change with the density: %s" % vals[:, :3].tolist()})
    # a model centred on the normalised UEG vector returns its baseline for the uniform gas
    return {"fail": fails, "evals": len(RHOS), "outcome": out}


def run_normclass(case):
    from checks import c12
    from ciderpress.dft.feat_normalizer import FeatNormalizerList

    fails = []
    out = []
    sl = case["sl"]
    nsl = 3 if sl in ("npa", "nst") else 2
    from mc import nldf_defs as D

    for variant in (0, 1):
        n = c12._norm_obj(case["cls"], variant)
        nl = FeatNormalizerList([None] * nsl + [n], sl)
        for rho in RHOS:
            x = np.zeros((1, nsl + 1, 1))
            x[0, 0] = rho
            if sl == "npa":
                x[0, 2] = 1.0
            elif sl == "nst":
                x[0, 2] = D.tau_ueg(rho)
            x[0, nsl] = 1.7
            b = nl.get_normalized_feature_vector(x.copy())[0, nsl, 0]
            a = 1.7 * nl.ueg_vector(rho)[nsl]
            if abs(a - b) > 1e-11 * (1 + abs(b)):
                fails.append({"key": "normalizer-ueg;cls=%s;sl=%s" % (type(n).__name__, sl),
                              "msg": "FeatNormalizerList.ueg_vector(%g) reports factor %.10g for %s but the forward pass applies %.10g to a uniform-gas feature" % (rho, a / 1.7, type(n).__name__, b / 1.7)})
            out.append(float("%.9e" % b))
    return {"fail": fails, "evals": 2 * len(RHOS), "outcome": out}


def run_case(case):
    k = case["kind"]
    if k == "sl":
        return run_sl(case)
    if k in ("vj", "vk", "vi", "vi-l1", "vij"):
        return run_nldf(case)
    if k == "sdmx":
        return run_sdmx(case)
    if k == "vmapheg":
        return run_vmapheg(case)
    if k == "nlof":
        return run_nlof(case)
    if k == "norm":
        return run_norm(case)
    return run_normclass(case)
