"""C15 - covariance kernels are valid and their gradients match their values.
Engine E1 over kernel expression trees, DESIGN.md section 5/C15.

States  = kernel expression trees up to depth 2 (quick) / 3 (thorough): every leaf class with its
          hyper-parameters at {low, mid, high} of the alphabet (and 'fixed'), combined by +, x,
          integer power, feature subsets (list and slice), spin symmetrisation, linear transform,
          active-dimension wrappers.
Oracles = k(X,Y) == k(Y,X)^T; diag(X) == diag k(X,X); smallest eigenvalue of k(X,X) >= -1e-10
          lambda_max; composition algebra against the component matrices; invariance under exchange
          of the spin blocks where declared; hyper-parameter gradient (last axis = non-fixed theta
          only) vs Richardson central differences in log-theta; k_and_deriv's input gradient vs
          Richardson differences in X.  X, Y contain coincident and far-apart rows.
"""
import copy
import itertools

import numpy as np

ID = "C15"
VARIANT = "plain"  # the DFT-level kernel imports the baselines, which load the C library
LEVEL_RULE = (
    "states = kernel expression trees (leaf class x hyper-parameter alphabet; all binary compositions of leaves with + and x; "
    "unary power / subset / spin-symmetrised / transformed / active-dims wrappers); each state is checked on fixed X (6x4 incl. "
    "coincident and far rows) and Y (5x4); outcome = rounded kernel checksum"
)
ASSUMPTIONS = [
    "sample matrices are fixed 6x4 / 5x4 alphabets (coincident rows, far-apart rows, X is Y); hyper-parameters from {0.4, 1.0, 2.5} patterns and 'fixed'",
    "Richardson-extrapolated central differences (h = 1e-4, 5e-5) for gradients; tolerance 2e-7 relative to the gradient scale",
    "trees up to depth 2 (quick) / 3 (thorough)",
]
NF = 4


def _rd(A, B):
    """Largest element-wise difference relative to 1 + |A| + |B| (inf if anything is not finite): no entry of the matrix
    (the very far row of a polynomial kernel reaches 1e13) sets the tolerance of another."""
    A, B = np.asarray(A, float), np.asarray(B, float)
    if not (np.all(np.isfinite(A)) and np.all(np.isfinite(B))):
        return np.inf
    return float((np.abs(A - B) / (1 + np.abs(A) + np.abs(B))).max()) if A.size else 0.0


def _XY():
    # coincident rows, a moderately far row (kernel values ~1e-40) and a VERY far row (squared-exponential kernels underflow
    # to exactly 0 there); Y also holds the zero vector (exact zero of the linear / polynomial base kernels)
    X = np.array([[0.3, 1.1, 0.7, 0.2], [0.3, 1.1, 0.7, 0.2], [1.9, 0.4, 0.1, 1.3], [0.05, 0.9, 1.6, 0.6], [6.0, 5.5, 7.1, 4.9], [0.8, 0.8, 0.8, 0.8],
                  [90.0, 85.0, 97.0, 79.0]])
    Y = np.array([[0.5, 0.2, 1.4, 0.9], [0.3, 1.1, 0.7, 0.2], [1.2, 1.7, 0.3, 0.4], [5.0, 6.5, 4.1, 7.9], [0.1, 0.6, 0.2, 1.5], [0.0, 0.0, 0.0, 0.0]])
    return X, Y


def leaves():
    from ciderpress.models import kernels as K

    L = {}
    ls3 = {"lo": [0.4, 0.5, 0.45, 0.6], "mid": [1.0, 1.3, 0.8, 1.1], "hi": [2.5, 2.0, 3.0, 2.2]}
    for tag, ls in ls3.items():
        L["RBF-aniso-" + tag] = lambda ls=ls: K.DiffRBF(length_scale=np.array(ls))
    L["RBF-iso"] = lambda: K.DiffRBF(length_scale=0.9)
    L["RBF-fixed"] = lambda: K.DiffRBF(length_scale=np.array(ls3["mid"]), length_scale_bounds="fixed")
    L["AntisymRBF"] = lambda: K.DiffAntisymRBF(length_scale=np.array([0.8, 1.1, 0.9]))
    L["Linear"] = lambda: K.DiffLinearKernel()
    for order, fact, aniso in itertools.product((1, 2, 3, 4), (True, False), (False, True)):
        g = np.array([0.3, 0.5, 0.2, 0.4]) if aniso else 0.35
        L["Poly-o%d-%s-%s" % (order, "f" if fact else "nf", "a" if aniso else "i")] = lambda order=order, fact=fact, g=g: K.DiffPolyKernel(gamma=g, order=order, factorial=fact)
    L["Poly-fixed"] = lambda: K.DiffPolyKernel(gamma=0.35, order=3, gamma_bounds="fixed")
    for order in (1, 2, 3, 4):  # 4 = number of feature columns: the highest order with a non-vanishing term
        sc = [0.2, 0.7, 0.4, 0.3, 0.25][: order + 1]
        for tag, ls in ls3.items():
            if tag != "mid" and order != 2:
                continue
            L["ARBF-o%d-%s" % (order, tag)] = lambda order=order, sc=sc, ls=ls: K.DiffARBF(order=order, length_scale=np.array(ls), scale=np.array(sc))
        L["ARBFV2-o%d" % order] = lambda order=order, sc=sc: K.DiffARBFV2(order=order, length_scale=np.array(ls3["mid"]), scale=np.array(sc))
        L["AddLLRBF-o%d" % order] = lambda order=order, sc=sc: K.DiffAddLLRBF(order=order, alpha=1.7, length_scale=np.array(ls3["mid"]), scale=np.array(sc))
        L["AddRQ-o%d" % order] = lambda order=order, sc=sc: K.DiffAddRQ(order=order, alpha=1.3, length_scale=np.array(ls3["hi"]), scale=np.array(sc))
    L["ARBF-iso"] = lambda: K.DiffARBF(order=2, length_scale=1.2, scale=np.array([0.2, 0.7, 0.4]))
    L["ARBF-fixedscale"] = lambda: K.DiffARBF(order=2, length_scale=np.array(ls3["mid"]), scale=np.array([0.2, 0.7, 0.4]), scale_bounds="fixed")
    L["ARBF-fixedls"] = lambda: K.DiffARBF(order=2, length_scale=np.array(ls3["mid"]), scale=np.array([0.2, 0.7, 0.4]), length_scale_bounds="fixed")
    L["ARBFV2-fixedls"] = lambda: K.DiffARBFV2(order=2, length_scale=np.array(ls3["mid"]), scale=np.array([0.2, 0.7, 0.4]), length_scale_bounds="fixed")
    L["AddRQ-iso"] = lambda: K.DiffAddRQ(order=2, alpha=0.8, length_scale=1.4, scale=np.array([0.1, 0.5, 0.9]))
    L["PartialRBF-start"] = lambda: K.PartialRBF(length_scale=np.array([1.0, 0.7, 1.3]), start=1)
    L["PartialRBF-dims"] = lambda: K.PartialRBF(length_scale=np.array([1.0, 0.7]), active_dims=[3, 0])
    L["PartialARBF"] = lambda: K.PartialARBF(order=2, length_scale=np.array([1.0, 0.7, 1.3]), scale=[0.3, 0.5, 0.2], start=1)
    L["QARBF"] = lambda: K.QARBF(4, np.array(ls3["mid"]), [0.2] + [0.5] * 4 + [0.3] * 6)
    L["Const"] = lambda: K.DiffConstantKernel(1.7)
    L["White"] = lambda: K.DiffWhiteKernel(0.3)
    L["SingleRBF"] = lambda: K.SingleRBF(length_scale=0.8, index=2)
    L["SingleDot"] = lambda: K.SingleDot(sigma_0=0.5, index=1)
    L["DensityNoise"] = lambda: K.DensityNoise(index=0)
    L["ExpDensityNoise"] = lambda: K.ExponentialDensityNoise(exponent=1.3)
    L["FittedDensityNoise"] = lambda: K.FittedDensityNoise(decay_rate=2.0)
    # index / spin wrappers (leaf level)
    L["SubsetRBF-list"] = lambda: K.SubsetRBF([2, 0], length_scale=np.array([0.9, 1.4]))
    L["SubsetRBF-slice"] = lambda: K.SubsetRBF(slice(1, 4), length_scale=np.array([0.9, 1.4, 0.7]))
    L["SubsetRBF-step"] = lambda: K.SubsetRBF(slice(0, 4, 2), length_scale=np.array([0.9, 1.4]))
    L["SubsetARBF"] = lambda: K.SubsetARBF([1, 2, 3], order=2, length_scale=np.array([0.9, 1.4, 0.7]), scale=np.array([0.2, 0.6, 0.4]))
    L["SubsetAddLLRBF"] = lambda: K.SubsetAddLLRBF(slice(0, 3), order=2, alpha=1.5, length_scale=np.array([0.9, 1.4, 0.7]), scale=np.array([0.2, 0.6, 0.4]))
    L["SubsetAddRQ"] = lambda: K.SubsetAddRQ([3, 1], order=2, alpha=1.1, length_scale=np.array([0.9, 1.4]), scale=np.array([0.2, 0.6, 0.4]))
    L["SubsetPoly"] = lambda: K.SubsetPoly([0, 3], gamma=np.array([0.3, 0.6]), order=3)
    L["SpinSymRBF"] = lambda: K.SpinSymRBF([0, 1], [2, 3], length_scale=np.array([0.9, 1.4]))
    L["SpinSymARBF"] = lambda: K.SpinSymARBF([0, 1], [2, 3], order=2, length_scale=np.array([0.9, 1.4]), scale=np.array([0.2, 0.6, 0.4]))
    L["SpinSymPoly"] = lambda: K.SpinSymPoly([1, 0], [3, 2], gamma=np.array([0.3, 0.6]), order=2)
    L["SpinSymRBF-slice"] = lambda: K.SpinSymRBF(slice(0, 2), slice(2, 4), length_scale=np.array([0.9, 1.4]))
    return L


SPIN = {"SpinSymRBF": ([0, 1], [2, 3]), "SpinSymARBF": ([0, 1], [2, 3]), "SpinSymPoly": ([1, 0], [3, 2]), "SpinSymRBF-slice": ([0, 1], [2, 3])}
NOT_PSD = set()  # every listed leaf is a valid covariance function
BASIC = ["RBF-aniso-mid", "RBF-iso", "Linear", "Poly-o2-f-a", "Poly-o3-nf-i", "ARBF-o2-mid", "ARBFV2-o2", "AddLLRBF-o2", "AddRQ-o2", "Const", "White",
         "SubsetRBF-slice", "SubsetARBF", "SpinSymRBF", "SpinSymARBF", "AntisymRBF", "RBF-fixed", "PartialRBF-start", "SubsetPoly"]


def initial_cases(tier, seed):
    L = leaves()
    cases = [{"tree": ["leaf", n]} for n in L]
    pool = BASIC if tier == "quick" else list(L)
    for a, b in itertools.product(pool, pool):
        for op in ("+", "*"):
            cases.append({"tree": [op, ["leaf", a], ["leaf", b]]})
    for a in list(L):
        for e in (2, 3):
            cases.append({"tree": ["pow", ["leaf", a], e]})
        cases.append({"tree": ["transform", ["leaf", a]]})
        if a in BASIC[:6]:
            # the three optional arguments of the wrapper in every presence pattern (each pattern is its own code path)
            for v in ("std", "avg", "none"):
                cases.append({"tree": ["transform-" + v, ["leaf", a]]})
        cases.append({"tree": ["ad", ["leaf", a]]})
        cases.append({"tree": ["spinsym", ["leaf", a]]})
        cases.append({"tree": ["+c", ["leaf", a], 0.6]})
        cases.append({"tree": ["*c", ["leaf", a], 1.9]})
    if tier == "thorough":
        for a, b, c in itertools.product(BASIC[:9], BASIC[:9], BASIC[:9]):
            cases.append({"tree": ["+", ["*", ["leaf", a], ["leaf", b]], ["leaf", c]]})
            cases.append({"tree": ["*", ["+", ["leaf", a], ["leaf", b]], ["leaf", c]]})
    # DFT-level kernel (dft_kernel.DFTKernel): spin modes x nspin x component kernel x control-point reduction
    for mode, nspin, kk, red in itertools.product(("SEP", "NPOL", "POL"), (1, 2), ("RBF", "cRBF", "ARBF", "Sum"), (False, True)):
        cases.append({"dft": True, "mode": mode, "nspin": nspin, "kk": kk, "reduce": red})
    for c in cases:
        c["seed"] = seed
    return cases


def case_label(c):
    if c.get("dft"):
        return "DFTKernel;mode=%s;nspin=%d;kernel=%s;reduce=%s" % (c["mode"], c["nspin"], c["kk"], c["reduce"])
    return _name(c["tree"])


def run_dft(case):
    """DFTKernel.get_k / get_k_and_deriv / get_kctrl: own evaluation of the documented definition (transformed features per
    spin mode; polarised kernel k_aa k_bb + k_ab k_ba), and the input derivative against Richardson differences."""
    from ciderpress.dft import transform_data as T
    from ciderpress.dft.baselines import BASELINE_CODES
    from ciderpress.models import kernels as K
    from ciderpress.models.dft_kernel import DFTKernel

    fails = []
    mode, nspin, kk = case["mode"], case["nspin"], case["kk"]
    ck = case_label(case)
    fl = T.FeatureList([T.UMap(1, 0.4), T.VMap(2, 0.6, scale=1.0, center=0.0), T.TMap(1, 2)])
    ls = np.array([0.5, 0.8, 0.65])
    base = {"RBF": lambda: K.DiffRBF(length_scale=ls), "cRBF": lambda: K.DiffConstantKernel(1.7) * K.DiffRBF(length_scale=ls),
            "ARBF": lambda: K.DiffARBF(order=2, length_scale=ls, scale=np.array([0.2, 0.7, 0.4])),
            "Sum": lambda: K.DiffRBF(length_scale=ls) + 0.3 * K.DiffPolyKernel(gamma=np.array([0.2, 0.3, 0.25]), order=2)}[kk]
    rng = np.random.RandomState(31 + case["seed"])

    def raw(ns, n):
        x = np.empty((ns, 3, n))
        x[:, 0] = 0.2 + rng.rand(ns, n)        # density-like
        x[:, 1] = 0.05 + 1.5 * rng.rand(ns, n)  # s^2-like
        x[:, 2] = 0.05 + 1.2 * rng.rand(ns, n)  # alpha-like
        return x

    dk = DFTKernel(base(), fl, mode, BASELINE_CODES["LDA_X"], BASELINE_CODES["ZERO"], ctrl_tol=1e-3)
    cand = [raw(nspin, 7), raw(nspin, 6)]
    try:
        dk.set_control_points(cand, reduce=case["reduce"])
    except Exception as e:
        return {"fail": [{"key": "dft-cannot-evaluate;%s;%s" % (ck, type(e).__name__), "msg": "set_control_points raised %s: %s" % (type(e).__name__, str(e)[:150])}], "evals": 1, "outcome": "raised"}
    Xc = np.asarray(dk.X1ctrl)
    kern = dk.kernel

    def desc(X0T, s):
        out = np.zeros((X0T.shape[2], fl.nfeat))
        fl.fill_vals_(out.T, X0T[s])
        return out

    def pol_rows(X0T):
        # what one sample row of each channel is, per the class docstring: mean over spins for NPOL, per spin otherwise
        if mode == "NPOL":
            m = np.zeros((X0T.shape[2], fl.nfeat))
            fl.fill_vals_(m.T, X0T.mean(0))
            return [m]
        return [desc(X0T, s) for s in range(X0T.shape[0])]

    def own_k(X0T):
        rows = pol_rows(X0T)
        if mode == "POL":
            a, b = (rows[0], rows[0]) if len(rows) == 1 else rows
            return (kern(a, Xc[0]) * kern(b, Xc[1]) + kern(a, Xc[1]) * kern(b, Xc[0])).T
        if mode == "NPOL":
            return kern(rows[0], Xc).T
        return np.stack([kern(r, Xc).T for r in rows], axis=1)  # (nctrl, nspin, nsamp)

    # control-point covariance
    Kmm = np.asarray(dk.get_kctrl())
    if mode == "POL":
        want = kern(Xc[0], Xc[0]) * kern(Xc[1], Xc[1]) + kern(Xc[0], Xc[1]) * kern(Xc[1], Xc[0])
    else:
        want = kern(Xc, Xc)
    sc = 1 + np.abs(want).max()
    if Kmm.shape != want.shape or np.abs(Kmm - want).max() > 1e-12 * sc:
        fails.append({"key": "dft-kctrl;" + ck, "msg": "get_kctrl differs from the kernel of the control points"})
    elif np.abs(Kmm - Kmm.T).max() > 1e-12 * sc or np.linalg.eigvalsh(0.5 * (Kmm + Kmm.T)).min() < -1e-10 * sc:
        fails.append({"key": "dft-kctrl-psd;" + ck, "msg": "control-point covariance not symmetric positive semi-definite"})
    if case["reduce"]:
        allc = dk.X0Tlist_to_X1array(cand)
        pts = Xc.reshape(-1, Xc.shape[-1]) if mode != "POL" else Xc[0]
        pool = allc.reshape(-1, allc.shape[-1]) if mode != "POL" else allc[0]
        if any(np.abs(pool - p).sum(1).min() > 1e-14 for p in pts):
            fails.append({"key": "dft-control-not-subset;" + ck, "msg": "reduced control points are not a subset of the candidates"})
    X0T = raw(nspin, 5)
    keep = X0T.copy()
    k1 = np.asarray(dk.get_k(X0T))
    k2, dk2 = dk.get_k_and_deriv(X0T)
    evals = 3
    if not np.array_equal(X0T, keep):
        fails.append({"key": "input-modified;" + ck, "msg": "get_k / get_k_and_deriv changed the caller's feature array"})
        X0T = keep.copy()
    ref = own_k(X0T)
    if k1.shape != ref.shape or np.abs(k1 - ref).max() > 1e-12 * (1 + np.abs(ref).max()):
        fails.append({"key": "dft-get_k;" + ck, "msg": "get_k differs from the documented kernel of the transformed features (shape %s vs %s, max diff %s)" % (
            k1.shape, ref.shape, np.abs(k1 - ref).max() if k1.shape == ref.shape else "n/a")})
    if np.asarray(k2).shape != k1.shape or np.abs(np.asarray(k2) - k1).max() > 1e-12 * (1 + np.abs(k1).max()):
        fails.append({"key": "dft-k-vs-k_and_deriv;" + ck, "msg": "get_k_and_deriv returns a different kernel than get_k"})
    dk2 = np.asarray(dk2)
    nctrl = k1.shape[0]
    if dk2.shape != (nctrl, nspin, 3, 5):
        fails.append({"key": "dft-deriv-shape;" + ck, "msg": "derivative shape %s, documented (%d, %d, 3, 5)" % (dk2.shape, nctrl, nspin)})
        return {"fail": fails, "evals": evals, "outcome": [ck, "shape"]}
    worst = 0.0
    for s_, j in itertools.product(range(nspin), range(3)):
        ds = []
        for h in (2e-4, 1e-4):
            vals = []
            for sg in (1, -1):
                Xp = X0T.copy()
                Xp[s_, j] += sg * h
                vals.append(own_k(Xp))
                evals += 1
            ds.append((vals[0] - vals[1]) / (2 * h))
        num = (4 * ds[1] - ds[0]) / 3  # (nctrl, [nspin,] nsamp): derivative of every output w.r.t. input (s_, j) of the SAME sample
        if mode == "SEP":
            # output (ctrl, spin, sample) depends only on the input of its own spin
            got = np.zeros_like(num)
            got[:, s_] = dk2[:, s_, j]
        else:
            got = dk2[:, s_, j]
        err = np.abs(got - num).max() / (1 + np.abs(num).max())
        worst = max(worst, err)
        if err > 2e-8:
            fails.append({"key": "dft-input-gradient;" + ck, "msg": "d k / d X0T[spin %d, feature %d] differs from Richardson differences of the kernel by rel %.3e" % (s_, j, err)})
            break
    return {"fail": fails, "evals": evals, "outcome": [ck, int(nctrl), float("%.8e" % np.abs(k1).sum())], "info": {"worst_gradient_err": worst}}


def _name(t):
    if t[0] == "leaf":
        return t[1]
    if t[0] in ("+", "*"):
        return "(%s %s %s)" % (_name(t[1]), t[0], _name(t[2]))
    if t[0] == "pow":
        return "%s**%d" % (_name(t[1]), t[2])
    if t[0] in ("+c", "*c"):
        return "(%s %s %g)" % (_name(t[1]), t[0][0], t[2])
    return "%s(%s)" % (t[0], _name(t[1]))


def _nf_of(t):
    """Number of input features the tree expects (wrappers that select dimensions change it)."""
    return NF


def build(t):
    from ciderpress.models import kernels as K

    if t[0] == "leaf":
        return leaves()[t[1]]()
    if t[0] == "+":
        return build(t[1]) + build(t[2])
    if t[0] == "*":
        return build(t[1]) * build(t[2])
    if t[0] == "pow":
        return build(t[1]) ** t[2]
    if t[0] == "+c":
        return build(t[1]) + t[2]
    if t[0] == "*c":
        return t[2] * build(t[1])
    if t[0] == "transform":
        M = np.array([[1.0, 0.2, 0.0, 0.1], [0.0, 0.9, 0.3, 0.0], [0.2, 0.0, 1.1, 0.0], [0.0, 0.1, 0.0, 0.8]])
        return K.DiffTransform(build(t[1]), M, std=np.array([1.0, 2.0, 0.5, 1.5]), avg=np.array([0.1, 0.0, 0.3, 0.2]))
    if t[0].startswith("transform-"):
        M = np.array([[1.0, 0.2, 0.0, 0.1], [0.0, 0.9, 0.3, 0.0], [0.2, 0.0, 1.1, 0.0], [0.0, 0.1, 0.0, 0.8]])
        v = t[0].split("-")[1]
        return K.DiffTransform(build(t[1]), M, std=np.array([1.0, 2.0, 0.5, 1.5]) if v == "std" else None,
                               avg=np.array([0.1, 0.0, 0.3, 0.2]) if v == "avg" else None)
    if t[0] == "ad":
        return K.ADKernel(build(t[1]), [3, 1, 0, 2])
    if t[0] == "spinsym":
        return K.SpinSymKernel(build(t[1]), [0, 1, 2, 3], [2, 3, 0, 1])
    raise ValueError(t)


def _has(t, names):
    if t[0] == "leaf":
        return any(t[1].startswith(n) for n in names)
    return any(_has(x, names) for x in t[1:] if isinstance(x, list))


def run_case(case):
    if case.get("dft"):
        return run_dft(case)
    t = case["tree"]
    name = _name(t)
    fails = []
    X, Y = _XY()
    kind = t[0] if t[0] != "leaf" else "leaf:" + t[1]
    ck = name

    def call(k, *a, **kw):
        import contextlib
        import io

        with contextlib.redirect_stdout(io.StringIO()):  # QARBF prints its scales
            return k(*a, **kw)

    X0, Y0 = X.copy(), Y.copy()
    try:
        k = build(t)
        KXX = call(k, X)
        KXY = call(k, X, Y)
        KYX = call(build(t), Y, X)
        KXXa = call(k, X, X)  # the same array object on both sides
    except Exception as e:
        return {"fail": [{"key": "cannot-evaluate;%s;%s" % (ck, type(e).__name__), "msg": "kernel %s cannot be evaluated: %s: %s" % (name, type(e).__name__, str(e)[:200])}],
                "evals": 1, "outcome": "raised"}
    evals = 4
    sc = 1 + np.abs(KXX).max()
    if not (np.array_equal(X, X0) and np.array_equal(Y, Y0)):
        fails.append({"key": "input-modified;" + ck, "msg": "evaluating the kernel changed the caller's sample arrays (max change %.3e)" % max(np.abs(X - X0).max(), np.abs(Y - Y0).max())})
        X[:], Y[:] = X0, Y0
    if np.all(np.isfinite(KXXa)) and _rd(KXXa, KXX) > 1e-12 and not _has(t, ["White", "DensityNoise", "ExpDensityNoise", "FittedDensityNoise"]):
        fails.append({"key": "kXX-aliased;" + ck, "msg": "k(X, X) with the same array on both sides differs from k(X): %.3e" % np.abs(KXXa - KXX).max()})
    if not np.all(np.isfinite(KXX)) or not np.all(np.isfinite(KXY)):
        fails.append({"key": "nonfinite;" + ck, "msg": "kernel matrix not finite"})
        return {"fail": fails, "evals": evals, "outcome": "nonfinite"}
    noise = _has(t, ["White", "DensityNoise", "ExpDensityNoise", "FittedDensityNoise"])
    if _rd(KXY, KYX.T) > 1e-12:
        fails.append({"key": "not-symmetric-XY;" + ck, "msg": "k(X,Y) != k(Y,X)^T: %.3e" % np.abs(KXY - KYX.T).max()})
    if _rd(KXX, KXX.T) > 1e-12:
        fails.append({"key": "not-symmetric-XX;" + ck, "msg": "k(X,X) not symmetric: %.3e" % np.abs(KXX - KXX.T).max()})
    try:
        d = build(t).diag(X)
        if _rd(d, np.diag(KXX)) > 1e-12:
            fails.append({"key": "diag;" + ck, "msg": "diag(X) != diag k(X,X): max diff %.3e (diag %s vs %s)" % (np.abs(d - np.diag(KXX)).max(), d[:3], np.diag(KXX)[:3])})
    except Exception as e:
        fails.append({"key": "diag-raises;%s;%s" % (ck, type(e).__name__), "msg": "diag raised %s: %s" % (type(e).__name__, str(e)[:150])})
    w = np.linalg.eigvalsh(0.5 * (KXX + KXX.T))
    if w.min() < -1e-10 * max(1.0, w.max()):
        fails.append({"key": "not-psd;" + ck, "msg": "k(X,X) has eigenvalue %.3e (largest %.3e)" % (w.min(), w.max())})
    # composition algebra
    if t[0] in ("+", "*") and not noise:
        A = call(build(t[1]), X, Y)
        B = call(build(t[2]), X, Y)
        want = A + B if t[0] == "+" else A * B
        if _rd(KXY, want) > 1e-12:
            fails.append({"key": "algebra;" + ck, "msg": "composite kernel != %s of its components: %.3e" % ("sum" if t[0] == "+" else "product", np.abs(KXY - want).max())})
    if t[0] == "pow":
        A = call(build(t[1]), X, Y)
        if _rd(KXY, A ** t[2]) > 1e-12:
            fails.append({"key": "algebra;" + ck, "msg": "power kernel != component ** %d" % t[2]})
    if t[0] in ("+c", "*c"):
        A = call(build(t[1]), X, Y)
        want = A + t[2] if t[0] == "+c" else A * t[2]
        if _rd(KXY, want) > 1e-12:
            fails.append({"key": "algebra;" + ck, "msg": "kernel (op) constant != component (op) constant"})
    # spin-block exchange
    if t[0] == "leaf" and t[1] in SPIN:
        a, b = SPIN[t[1]]
        Xs = X.copy()
        Xs[:, a], Xs[:, b] = X[:, b], X[:, a]
        if _rd(call(build(t), Xs, Y), KXY) > 1e-12:
            fails.append({"key": "spin-exchange;" + ck, "msg": "kernel changes when the spin blocks of X are exchanged"})
    # hyper-parameter gradient
    try:
        k = build(t)
        Kg, G = call(k, X, eval_gradient=True)
        th0 = np.array(k.theta, dtype=float)
        if G.shape != KXX.shape + (th0.size,):
            fails.append({"key": "theta-gradient-shape;" + ck, "msg": "gradient has %s, kernel has %d non-fixed hyper-parameters" % (G.shape, th0.size)})
        elif th0.size:
            if _rd(Kg, KXX) > 1e-12:
                fails.append({"key": "value-with-gradient;" + ck, "msg": "k(X, eval_gradient=True)[0] != k(X)"})
            gs = 1 + np.abs(G).max()
            for i in range(th0.size):
                ds = []
                for h in (1e-4, 5e-5):
                    kp, km = build(t), build(t)
                    tp, tm = th0.copy(), th0.copy()
                    tp[i] += h
                    tm[i] -= h
                    kp.theta = tp
                    km.theta = tm
                    ds.append((call(kp, X) - call(km, X)) / (2 * h))
                    evals += 2
                num = (4 * ds[1] - ds[0]) / 3
                # element-wise floor of the difference quotient itself: rounding of |k| (up to 1e13 on the very far row of a
                # polynomial kernel) divided by the step
                floor = 16 * np.finfo(float).eps * np.abs(KXX) / 5e-5
                # element-wise scale: the very far row must not set the tolerance of the other entries
                err = ((np.abs(num - G[:, :, i]) - floor) / (1 + np.abs(G[:, :, i]) + np.abs(KXX))).max()
                if not err <= 2e-7:
                    fails.append({"key": "theta-gradient;%s;theta=%d" % (ck, i), "msg": "d k/d log-theta[%d] = %.8g numerically but %.8g returned (max abs diff %.3e)" % (
                        i, num.flat[np.argmax(np.abs(num - G[:, :, i]))], G[:, :, i].flat[np.argmax(np.abs(num - G[:, :, i]))], err)})
                    break
    except (NotImplementedError, ValueError, AttributeError):
        pass
    # input gradient
    try:
        k = build(t)
        kk, dk = k.k_and_deriv(X, Y)
        if _rd(kk, KXY) > 1e-12:
            fails.append({"key": "k_and_deriv-value;" + ck, "msg": "k_and_deriv value != k(X,Y): %.3e" % np.abs(kk - KXY).max()})
        if not np.all(np.isfinite(dk)):
            bad = np.argwhere(~np.isfinite(dk))[0]
            fails.append({"key": "input-gradient-nonfinite;%s" % ck, "msg": "k_and_deriv returns %s for d k(X_%d,Y_%d)/d X[%d] where k = %.3e" % (
                dk[tuple(bad)], bad[0], bad[1], bad[2], KXY[bad[0], bad[1]])})
            return {"fail": fails, "evals": evals, "outcome": "nonfinite-gradient"}
        for f in range(X.shape[1]):
            ds = []
            for h in (1e-4, 5e-5):
                Xp, Xm = X.copy(), X.copy()
                Xp[:, f] += h
                Xm[:, f] -= h
                ds.append((call(build(t), Xp, Y) - call(build(t), Xm, Y)) / (2 * h))
                evals += 2
            num = (4 * ds[1] - ds[0]) / 3
            floor = 16 * np.finfo(float).eps * np.abs(KXY) / 5e-5
            err = ((np.abs(num - dk[:, :, f]) - floor) / (1 + np.abs(dk[:, :, f]) + np.abs(KXY))).max()
            if not err <= 2e-7:
                fails.append({"key": "input-gradient;%s" % ck, "msg": "d k(X_i,Y_j)/d X_i[%d] differs from k_and_deriv by %.3e" % (f, err)})
                break
    except (NotImplementedError, AttributeError):
        pass
    except Exception as e:
        fails.append({"key": "k_and_deriv-raises;%s;%s" % (ck, type(e).__name__), "msg": "k_and_deriv raised %s: %s" % (type(e).__name__, str(e)[:200])})
    return {"fail": fails, "evals": evals, "outcome": [name, float("%.9e" % KXY.sum()), float("%.9e" % np.trace(KXX))]}
