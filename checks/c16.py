"""C16 - Gaussian-process training solves the documented linear system.
Engine E2 (history explorer over the real MOLGP object), DESIGN.md section 5/C16.

Systems    = four tiny synthetic 'training systems' written by the harness as real HDF5 training
             files (restricted and spin-polarised, with orbital-occupation derivative data).
Operations = add_reactions([subset]), reset_reactions(), fit(), fit(x), compute_likelihood(x);
             every order of a 4-reaction list x every split into consecutive add_reactions calls x
             optional reset-and-re-add.
Oracles    = dense linear algebra in extended precision:
             alpha_k = Kmm^-1 Kmn (Knm Kmm^-1 Kmn + Sigma)^-1 y   (docs/theory/gp.rst);
             y - prediction = Sigma (K + Sigma)^-1 y on the training reactions;
             permutation equivariance; reset/re-add idempotence;
             compute_likelihood(x) = Gaussian log marginal likelihood for covariance
             x0^2 K + (sigma_min + x1^2) Sigma;
             per-system covariance / baseline integrals of _compute_mol_covs against direct
             sums over the grid (low-density masking included), occupation derivatives against
             Richardson differences.
"""
import itertools
import os
import tempfile

import numpy as np

ID = "C16"
VARIANT = "plain"
LEVEL_RULE = (
    "states = histories of add_reactions / reset_reactions / fit on one real MOLGP (all 24 orders of 4 reactions x all "
    "consecutive splits x reset variants) per kernel configuration, merged by canonical (reaction multiset order) state; "
    "outcome = rounded alpha of the first kernel"
)
ASSUMPTIONS = [
    "four synthetic systems of 30-40 grid points with admissible semilocal features; reaction noises 0.03 / 0.05 so that the 1e-9 jitter of the implementation is a 1e-6 relative effect (tolerance 1e-5)",
    "kernels: squared-exponential exchange kernel (SEP), exchange + NPOL correlation-type kernel, POL kernel; control points with and without pivoted-Cholesky reduction",
    "hyper-parameter optimisation itself is not covered",
]
SYS = ["A", "B", "C", "D"]


def _systems(seed):
    rng = np.random.RandomState(700 + seed)
    out = {}
    for name, nspin, n in (("A", 1, 30), ("B", 2, 34), ("C", 1, 40), ("D", 2, 32)):
        rho = np.exp(rng.uniform(np.log(2e-3), np.log(3.0), size=(nspin, n)))
        rho[:, :3] = 10 ** rng.uniform(-9, -6.5, size=(nspin, 3))  # a few points below the 1e-6 training cutoff (all channels)
        p = rng.uniform(0.0, 3.0, size=(nspin, n))
        a = rng.uniform(0.0, 4.0, size=(nspin, n))
        desc = np.stack([rho, p, a], axis=1)  # (nspin, 3, n): 'npa' raw features (already spin scaled)
        wt = rng.uniform(0.01, 0.5, size=n)
        val = -0.7 * (rho.sum(0) / nspin) ** (4.0 / 3) * (1 + 0.2 * rng.rand(n))
        dd = {}
        dv = {}
        for occ in ("O", "U"):
            dd[occ] = {}
            dv[occ] = {}
            for num in ("0",):
                d = rng.randn(3, n) * 0.1
                if nspin == 2:
                    dd[occ][num] = (int(rng.randint(0, 2)), d)
                else:
                    dd[occ][num] = d
                dv[occ][num] = float(rng.randn() * 0.2)
        out[name] = dict(nspin=nspin, desc=desc, wt=wt, val=val, ddesc=dd, dval=dv,
                         e_tot_orig=float(-3.0 - rng.rand()), exc_orig=float(-0.8 - 0.1 * rng.rand()))
    return out


def _write(tmp, systems):
    from pyscf.lib import chkfile

    ref = os.path.join(tmp, "REF")
    sl = os.path.join(tmp, "SL")
    os.makedirs(ref)
    os.makedirs(sl)
    for name, s in systems.items():
        chkfile.dump(os.path.join(ref, name + ".hdf5"), "train_data",
                     {"wt": s["wt"], "val": s["val"], "e_tot_orig": s["e_tot_orig"], "exc_orig": s["exc_orig"], "nspin": s["nspin"], "dval": s["dval"]})
        chkfile.dump(os.path.join(sl, name + ".hdf5"), "train_data", {"desc": s["desc"], "ddesc": s["ddesc"]})
    return {"REF": ref, "SL": sl, "NLDF": None, "NLOF": None, "SDMX": None, "HYB": None}


REACTIONS = {
    "r0": (2, {"structs": ["A", "B"], "counts": [1, -1], "energy": 12.0}),
    "r1": (0, {"structs": ["C"], "counts": [1], "energy": 0.0, "noise": 0.05}),
    # r2 lists system A twice and r3 lists the same orbital-derivative entry twice (a dimer minus two monomers is written
    # that way): the stoichiometric counts of repeated entries add up
    "r2": (2, {"structs": ["D", "A", "C", "A"], "counts": [2, -0.25, -1, -0.75], "energy": -30.0, "unit": 0.0015936, "noise_factor": 1.5, "weight": 2.0}),
    "r3": (0, {"structs": [("B", ("O", 0)), "D", ("B", ("O", 0))], "counts": [0.6, 0.5, 0.4], "energy": 0.0, "noise": 0.04}),
}
CONFIGS = ["x-sep", "x-sep-reduced", "x+c", "pol", "x-npol"]


def _make_gp(cfg, systems, seed):
    from ciderpress.dft import settings as S
    from ciderpress.dft import transform_data as T
    from ciderpress.dft.baselines import BASELINE_CODES
    from ciderpress.models import kernels as K
    from ciderpress.models.dft_kernel import DFTKernel
    from ciderpress.models.train import MOLGP

    st = S.FeatureSettings(sl_settings=S.SemilocalSettings("npa"))
    fl = T.FeatureList([T.UMap(1, 0.4), T.VMap(2, 0.6, scale=1.0, center=0.0)])
    kx = K.DiffConstantKernel(1.3) * K.DiffRBF(length_scale=np.array([0.35, 0.5]))
    kernels = []
    if cfg in ("x-sep", "x-sep-reduced", "x+c"):
        kernels.append(DFTKernel(kx, fl, "SEP", BASELINE_CODES["LDA_X"], BASELINE_CODES["ZERO"], ctrl_tol=1e-4, component="x"))
    if cfg == "x-npol":
        kernels.append(DFTKernel(kx, fl, "NPOL", BASELINE_CODES["GGA_X_PBE"], BASELINE_CODES["LDA_X"], component="x"))
    if cfg == "x+c":
        kc = K.DiffRBF(length_scale=np.array([0.5, 0.4]))
        kernels.append(DFTKernel(kc, fl, "NPOL", BASELINE_CODES["LDA_X"], BASELINE_CODES["GGA_C_PBE"], component="c"))
    if cfg == "pol":
        kernels.append(DFTKernel(K.DiffRBF(length_scale=np.array([0.45, 0.6])), fl, "POL", BASELINE_CODES["LDA_X"], BASELINE_CODES["ZERO"], component="x"))
    gp = MOLGP(kernels, st, default_noise=0.03)
    X0T_list = [systems[n]["desc"][:, :, 5::4] for n in SYS]
    gp.set_control_points(X0T_list, reduce=(cfg == "x-sep-reduced"))
    return gp


def initial_cases(tier, seed):
    cases = []
    for cfg in CONFIGS:
        cases.append({"kind": "covs", "cfg": cfg, "seed": seed})
        orders = list(itertools.permutations(["r0", "r1", "r2", "r3"]))
        if tier == "quick" and cfg not in ("x-sep", "x+c"):
            orders = orders[::6]
        for order in orders:
            # all ways of splitting the list into consecutive add_reactions calls (2^3 = 8)
            for cuts in itertools.product((0, 1), repeat=3):
                if tier == "quick" and cfg != "x-sep" and sum(cuts) not in (0, 3):
                    continue
                for reset in ("none", "reset-readd", "partial-reset"):
                    if reset != "none" and (tier == "quick" and (cuts != (1, 0, 1) and cuts != (0, 0, 0))):
                        continue
                    cases.append({"kind": "fit", "cfg": cfg, "order": list(order), "cuts": list(cuts), "reset": reset, "seed": seed})
    return cases


def case_label(c):
    return ";".join("%s=%s" % (k, c[k]) for k in c if k != "seed")


_WORLD = {}


def _world(cfg, seed):
    """The expensive part (files, control points, per-system covariances) once per worker/config."""
    key = (cfg, seed)
    if key not in _WORLD:
        import contextlib
        import io

        systems = _systems(seed)
        tmp = tempfile.mkdtemp(prefix="c16-")
        ddir = _write(tmp, systems)
        gp = _make_gp(cfg, systems, seed)
        with contextlib.redirect_stdout(io.StringIO()):
            gp.store_mol_covs(ddir, SYS, get_orb_deriv=True)
        import shutil

        shutil.rmtree(tmp, ignore_errors=True)
        _WORLD[key] = (systems, gp)
    return _WORLD[key]


def _labels_and_covs(gp, names):
    """Independent assembly of y, per-kernel K_mn and the noise vector for a reaction list."""
    ys, noises = [], []
    covs = [[] for _ in gp.kernels]
    for nm in names:
        mode, rxn = REACTIONS[nm]
        y = 0.0
        if mode == 0:
            for sysid, c in zip(rxn["structs"], rxn["counts"]):
                y += c * (gp.dexx_ref_dict[sysid[0]][sysid[1]] if isinstance(sysid, tuple) else gp.exx_ref_dict[sysid])
        else:
            y += rxn["energy"] * rxn.get("unit", 0.00159360109742136)
            for sysid, c in zip(rxn["structs"], rxn["counts"]):
                y -= c * gp.ks_baseline_dict[sysid]
        for ik, k in enumerate(gp.kernels):
            active = (k.component == "x") or mode == 2
            cov = np.zeros(k.Nctrl)
            if active:
                for sysid, c in zip(rxn["structs"], rxn["counts"]):
                    if isinstance(sysid, tuple):
                        cov = cov + c * k.dcov_dict[sysid[0]][sysid[1]]
                        y -= c * k.dbase_dict[sysid[0]][sysid[1]]
                    else:
                        cov = cov + c * k.cov_dict[sysid]
                        y -= c * k.base_dict[sysid]
            covs[ik].append(cov)
        if rxn.get("noise") is not None:
            noise = rxn["noise"]
        elif rxn.get("noise_factor") is not None:
            noise = rxn["noise_factor"] * gp.default_noise
        else:
            noise = gp.default_noise
        if rxn.get("weight") is not None:
            noise = noise / np.sqrt(rxn["weight"])
        ys.append(y)
        noises.append(noise)
    return np.array(ys), [np.array(c).T for c in covs], np.array(noises)


def _solve(gp, names, x=None, sigma_min=0.25):
    LD = np.longdouble
    y, Kmn_list, noise = _labels_and_covs(gp, names)
    K = np.zeros((len(names), len(names)), dtype=LD)
    Kimn = []
    for k, Kmn in zip(gp.kernels, Kmn_list):
        Kmm = np.asarray(k.get_kctrl(), dtype=np.float64)
        sol = np.linalg.solve(Kmm + 1e-9 * np.eye(Kmm.shape[0]), Kmn)  # the documented K_mm^-1 (regularised as the implementation does)
        Kimn.append(sol)
        K += np.asarray(Kmn.T.dot(sol), dtype=LD)
    s = noise ** 2
    f0 = 1.0
    if x is not None:
        K = K * x[0] ** 2
        Kimn = [x[0] ** 2 * a for a in Kimn]
        s = s * (sigma_min + x[1] ** 2)
    A = K + np.diag(s.astype(LD))
    amol = np.linalg.solve(np.asarray(A, dtype=np.float64), y)
    # one step of iterative refinement in extended precision
    r = y.astype(LD) - A.dot(amol.astype(LD))
    amol = amol + np.linalg.solve(np.asarray(A, dtype=np.float64), np.asarray(r, dtype=np.float64))
    alphas = [a.dot(amol) for a in Kimn]
    return y, Kmn_list, noise, np.asarray(K, dtype=np.float64), amol, alphas


def run_fit(case):
    import contextlib
    import io

    cfg, order, cuts, seed = case["cfg"], case["order"], case["cuts"], case["seed"]
    systems, gp = _world(cfg, seed)
    fails = []
    ck = "cfg=%s" % cfg

    def add_split(names):
        groups, cur = [], [names[0]]
        for nm, c in zip(names[1:], cuts):
            if c:
                groups.append(cur)
                cur = [nm]
            else:
                cur.append(nm)
        groups.append(cur)
        for g in groups:
            gp.add_reactions([REACTIONS[n] for n in g])
        return len(groups)

    gp.reset_reactions()
    if case["reset"] == "reset-readd":
        add_split(order)
        gp.fit()
        gp.reset_reactions()
    elif case["reset"] == "partial-reset":
        gp.add_reactions([REACTIONS[order[2]], REACTIONS[order[0]]])
        gp.reset_reactions()
    ncalls = add_split(order)
    gp.fit()
    y, Kmn_list, noise, K, amol, alphas = _solve(gp, order)
    got_y = np.array(gp.rxn_ref_list)
    if got_y.shape != y.shape or np.abs(got_y - y).max() > 1e-12 * (1 + np.abs(y).max()):
        fails.append({"key": "labels;" + ck, "msg": "training labels %s differ from reference - baselines with counts and units %s (order %s)" % (got_y.tolist(), y.tolist(), order)})
    got_noise = np.array(gp.rxn_noise_list)
    if np.abs(got_noise - noise).max() > 1e-14:
        fails.append({"key": "noise;" + ck, "msg": "reaction noises %s vs %s" % (got_noise.tolist(), noise.tolist())})
    for ik, (k, a) in enumerate(zip(gp.kernels, alphas)):
        got = np.asarray(k.alpha)
        sc = 1 + np.abs(a).max()
        if got.shape != a.shape or np.abs(got - a).max() > 1e-5 * sc:
            fails.append({"key": "alpha;%s;kernel=%d" % (ck, ik), "msg": "kernel %d weights differ from Kmm^-1 Kmn (K + Sigma)^-1 y by rel %.3e (order %s, cuts %s, reset %s)" % (
                ik, np.abs(got - a).max() / sc, order, cuts, case["reset"])})
    # residual on the training reactions = Sigma (K+Sigma)^-1 y
    pred = sum(Kmn.T.dot(np.asarray(k.alpha)) for k, Kmn in zip(gp.kernels, Kmn_list))
    resid = y - pred
    want = noise ** 2 * amol
    if np.abs(resid - want).max() > 1e-5 * (1 + np.abs(want).max()):
        fails.append({"key": "residual;" + ck, "msg": "training residual %s != noise covariance applied to the solved reaction weights %s" % (resid.tolist(), want.tolist())})
    # equivariance: the result for this order equals the canonical order's result
    y0, Kmn0, noise0, K0, amol0, alphas0 = _solve(gp, sorted(order))
    for ik, (a, a0) in enumerate(zip(alphas, alphas0)):
        if np.abs(a - a0).max() > 1e-9 * (1 + np.abs(a0).max()):
            fails.append({"key": "harness-oracle-not-equivariant;" + ck, "msg": "reference solution depends on the order"})
    # likelihood (fit with x=None, then compute_likelihood(x))
    for x in (None, np.array([1.0, 1.0]), np.array([0.7, 1.4]), np.array([1.6, 0.2])):
        lk = gp.compute_likelihood(x)
        xx = np.array([1.0, 1.0]) if x is None else x
        Kf = xx[0] ** 2 * K + (0.25 + xx[1] ** 2) * np.diag(noise ** 2)
        sign, logdet = np.linalg.slogdet(Kf)
        ref = -0.5 * y.dot(np.linalg.solve(Kf, y)) - 0.5 * logdet - 0.5 * y.size * np.log(2 * np.pi)
        if abs(lk - ref) > 1e-5 * (1 + abs(ref)):
            fails.append({"key": "likelihood;" + ck, "msg": "compute_likelihood(%s) = %.10g but the Gaussian log marginal likelihood is %.10g" % (None if x is None else x.tolist(), lk, ref)})
    # fit(x) solves the rescaled system
    xs = np.array([0.8, 0.6])
    gp.fit(x=xs, sigma_min=0.25)
    _, _, _, _, amol_x, alphas_x = _solve(gp, order, x=xs)
    for ik, (k, a) in enumerate(zip(gp.kernels, alphas_x)):
        got = np.asarray(k.alpha)
        if np.abs(got - a).max() > 1e-5 * (1 + np.abs(a).max()):
            fails.append({"key": "alpha-scaled;%s;kernel=%d" % (ck, ik), "msg": "fit(x) weights differ from the rescaled linear system by rel %.3e" % (np.abs(got - a).max() / (1 + np.abs(a).max()))})
    state = "%s|%s" % (cfg, ",".join(order))
    return {"fail": fails, "evals": 7, "edges": ncalls, "state": None,
            "outcome": [cfg, [float("%.7e" % v) for v in alphas[0][:3]], list(order)]}


def run_covs(case):
    """cov_dict / base_dict / dcov_dict of _compute_mol_covs against direct sums over the grid."""
    cfg, seed = case["cfg"], case["seed"]
    systems, gp = _world(cfg, seed)
    fails = []
    nrm = gp.settings.normalizers
    for ik, k in enumerate(gp.kernels):
        for name in SYS:
            s = systems[name]
            X0T = nrm.get_normalized_feature_vector(s["desc"])
            kk = k.get_k(X0T)
            m, dm = k.multiplicative_baseline(X0T)
            a, da = k.additive_baseline(X0T)
            w = s["wt"]
            if k.mode == "SEP":
                cond = X0T[:, 0] < 1e-6
                kk = kk.copy()
                kk[:, cond] = 0
                m = np.where(cond, 0.0, m)
                a = np.where(cond, 0.0, a)
                cov = ((kk * m).sum(1) * w).sum(1)
                base = (a * w).sum()
            else:
                cond = X0T[:, 0].sum(0) < 1e-6
                cov = (kk * np.where(cond, 0.0, m) * w).sum(1)
                base = (np.where(cond, 0.0, a) * w).sum()
            got = k.cov_dict[name]
            if np.abs(got - cov).max() > 1e-12 * (1 + np.abs(cov).max()):
                fails.append({"key": "cov-integral;cfg=%s;kernel=%d" % (cfg, ik), "msg": "covariance integral of system %s differs from sum_g w k m by %.3e" % (name, np.abs(got - cov).max())})
            if abs(k.base_dict[name] - base) > 1e-12 * (1 + abs(base)):
                fails.append({"key": "base-integral;cfg=%s;kernel=%d" % (cfg, ik), "msg": "baseline integral of system %s: %.12g vs %.12g" % (name, k.base_dict[name], base)})
            # occupation derivative: d/dt of the same integral along desc + t * ddesc (Richardson)
            for occ, nums in s["ddesc"].items():
                for num, dd in nums.items():
                    sp, d = dd if isinstance(dd, tuple) else (0, dd)

                    def integral(t):
                        desc = s["desc"].copy()
                        desc[sp] = desc[sp] + t * d
                        X = nrm.get_normalized_feature_vector(desc)
                        k2 = k.get_k(X)
                        m2, _ = k.multiplicative_baseline(X)
                        a2, _ = k.additive_baseline(X)
                        X00 = nrm.get_normalized_feature_vector(s["desc"])
                        if k.mode == "SEP":
                            c0 = X00[:, 0] < 1e-6
                            k2 = k2.copy()
                            k2[:, c0] = 0
                            return ((k2 * np.where(c0, 0.0, m2)).sum(1) * w).sum(1), (np.where(c0, 0.0, a2) * w).sum()
                        c0 = X00[:, 0].sum(0) < 1e-6
                        return (k2 * np.where(c0, 0.0, m2) * w).sum(1), (np.where(c0, 0.0, a2) * w).sum()

                    ds, db = [], []
                    for h in (2e-4, 1e-4):
                        (cp, bp), (cm, bm) = integral(h), integral(-h)
                        ds.append((cp - cm) / (2 * h))
                        db.append((bp - bm) / (2 * h))
                    num_c = (4 * ds[1] - ds[0]) / 3
                    num_b = (4 * db[1] - db[0]) / 3
                    gotc = k.dcov_dict[name][(occ, int(num))]
                    gotb = k.dbase_dict[name][(occ, int(num))]
                    if np.abs(gotc - num_c).max() > 2e-7 * (1 + np.abs(num_c).max()):
                        fails.append({"key": "dcov-integral;cfg=%s;kernel=%d;mode=%s;nspin=%d" % (cfg, ik, k.mode, s["nspin"]),
                                      "msg": "occupation-derivative covariance of system %s orbital %s differs from the derivative of the covariance integral by rel %.3e" % (
                                          name, (occ, num), np.abs(gotc - num_c).max() / (1 + np.abs(num_c).max()))})
                    if abs(gotb - num_b) > 2e-7 * (1 + abs(num_b)):
                        fails.append({"key": "dbase-integral;cfg=%s;kernel=%d;mode=%s;nspin=%d" % (cfg, ik, k.mode, s["nspin"]),
                                      "msg": "occupation-derivative baseline of system %s orbital %s: %.10g vs %.10g" % (name, (occ, num), gotb, num_b)})
        Kmm = k.get_kctrl()
        w = np.linalg.eigvalsh(0.5 * (Kmm + Kmm.T))
        if np.abs(Kmm - Kmm.T).max() > 1e-12 or w.min() < -1e-10 * w.max():
            fails.append({"key": "kctrl;cfg=%s;kernel=%d" % (cfg, ik), "msg": "control-point covariance is not symmetric positive semi-definite (min eig %.3e)" % w.min()})
    return {"fail": fails, "evals": len(gp.kernels) * len(SYS) * 3, "outcome": [cfg, "covs", [int(k.Nctrl) for k in gp.kernels]]}


def run_case(case):
    if case["kind"] == "fit":
        return run_fit(case)
    return run_covs(case)
