"""C04 - model evaluators return consistent energy densities and feature derivatives.
Engine E1, DESIGN.md section 5/C04.

States  = full product (evaluator list x spin mode x nspin x multiplicative baseline x
          additive baseline x rhocut) for native-baseline models (MappedXC) and
          libxc-baseline models (MappedXC2), plus evaluator-level states (buffer
          accumulation, chunking around KernelEvaluator's internal chunk size).
Oracle  = Richardson-extrapolated central differences of `res` with respect to EVERY
          (spin, feature) input - the map is pointwise in the sample index, so perturbing
          one input row for all samples yields the per-sample derivative for the whole
          lattice at once - and for MappedXC2 also with respect to rho, sigma (incl. the
          cross term) and tau.  The rhocut clause needs no special case: away from the
          threshold the numerical derivative of a zeroed energy is exactly zero.
"""
import itertools

import numpy as np

ID = "C04"
VARIANT = "plain"
LEVEL_RULE = (
    "states = full product of evaluator list x mode x nspin x mul baseline x add baseline x rhocut (native and libxc "
    "variants) + evaluator-level accumulation/chunking states; every state differentiates res numerically w.r.t. every "
    "(spin, feature[, rho, sigma, tau]) input on a 162-point lattice; outcome = rounded (res, dres) signature"
)
ASSUMPTIONS = [
    "feature lattice inside the admissible domain and away from kinks (p > 0, alpha > 0, rho not within 1e-3 relative of rhocut); boundary values are C08's alphabet",
    "NNEvaluator is not covered (torch is not installed)",
    "Richardson central differences, h = (2e-3, 1e-3) relative to the input scale; thresholds 2e-8 (native) / 2e-7 (libxc) relative to the derivative scale",
]

EVS = ["RBF", "cRBF", "Kernel", "Linear", "Spline", "AntisymRBF", "RBF+Linear", "Kernel+Spline+RBF"]
MODES = ["SEP", "NPOL", "POL"]
MULS = ["LDA_X", "GGA_X_PBE", "GGA_X_CHACHIYO", "NLDA_X_DAMP", "ONE", "ZERO", "GGA_C_PBE", "RHO"]
ADDS = ["ZERO", "LDA_X", "GGA_X_PBE", "GGA_C_PBE", "None", "RHO"]
RHOCUTS = [0.0, 1e-9, 0.1]
XMULS = ["LDA_X", "GGA_X_PBE", "GGA_C_PBE", "LDA_C_PW_MOD", "GGA_X_PBE_SOL", "GGA_C_PBE_SOL", "MGGA_X_R2SCAN",
         "MGGA_C_R2SCAN", "OS_GGA_C_PBE", "SS_GGA_C_PBE"]
XADDS = ["None", "LDA_X", "GGA_C_PBE", "MGGA_C_R2SCAN", "SS_GGA_C_PBE", "OS_GGA_C_PBE"]
NONSEP = {"GGA_C_PBE", "LDA_C_PW_MOD", "GGA_C_PBE_SOL", "MGGA_C_R2SCAN", "OS_GGA_C_PBE", "SS_GGA_C_PBE"}


def initial_cases(tier, seed):
    cases = []
    for ev, mode, nspin, mul, add, rc in itertools.product(EVS, MODES, (1, 2), MULS, ADDS, RHOCUTS):
        if mode == "POL" and ev != "RBF":
            continue  # POL accepts only the spin kernel (substituted for RBF below)
        if mode == "SEP" and (mul == "GGA_C_PBE" or add == "GGA_C_PBE"):
            continue
        if tier == "quick":
            # quick tier: full product of (ev x mode x nspin x rhocut) at two baselines, and of
            # (mode x nspin x mul x add x rhocut) at two evaluator lists
            base_ok = (mul, add) in (("LDA_X", "ZERO"), ("GGA_X_PBE", "LDA_X"))
            ev_ok = ev in ("RBF", "Kernel+Spline+RBF")
            if not (base_ok or ev_ok):
                continue
        cases.append({"kind": "native", "ev": ev, "mode": mode, "nspin": nspin, "mul": mul, "add": add, "rhocut": rc, "seed": seed})
    for ev, mode, nspin, mul, add, rc in itertools.product(["RBF", "Kernel+Linear"], MODES, (1, 2), XMULS, XADDS, RHOCUTS):
        if mode == "POL" and ev != "RBF":
            continue
        if mode == "SEP" and (mul in NONSEP or add in NONSEP):
            continue
        if tier == "quick" and rc == 1e-9 and ev != "RBF":
            continue
        cases.append({"kind": "libxc", "ev": ev, "mode": mode, "nspin": nspin, "mul": mul, "add": add, "rhocut": rc, "seed": seed})
    for ev in ["RBF", "cRBF", "Kernel", "Linear", "Spline", "AntisymRBF", "SpinRBF"]:
        for n in ([1, 7, 162] if tier == "quick" else [1, 2, 7, 162, 1999, 2000, 2001, 4001]):
            cases.append({"kind": "eval", "ev": ev, "n": n, "seed": seed})
    for n in [1999, 2000, 2001, 4001]:
        cases.append({"kind": "eval", "ev": "Kernel", "n": n, "seed": seed})
    # native baselines on the EDGES of the admissible feature domain (uniform-gas limit s^2 -> 0, single-orbital limit
    # alpha -> 0, huge gradients / alpha): these regimes have their own branches (series expansions, clamps)
    for name in sorted(set(MULS) | set(ADDS)):
        for nspin in (1, 2):
            cases.append({"kind": "baseline-edge", "base": name, "nspin": nspin, "seed": seed})
    # dedupe
    seen, out = set(), []
    for c in cases:
        k = repr(sorted(c.items()))
        if k not in seen:
            seen.add(k)
            out.append(c)
    return out


def case_label(c):
    return ";".join("%s=%s" % (k, c[k]) for k in ("kind", "ev", "mode", "nspin", "mul", "add", "rhocut", "n") if k in c)


def _lattice(nspin):
    rho = [0.05, 0.6, 3.0]
    p = [0.02, 0.5, 4.0]
    al = [0.05, 1.0, 5.0]
    f3 = [-1.0, 0.2, 2.0]
    f4 = [-0.5, 1.2]
    pts = np.array(list(itertools.product(rho, p, al, f3, f4))).T  # (5, 162)
    if nspin == 1:
        return pts[None].copy()
    perm = np.roll(np.arange(pts.shape[1]), 37)
    return np.stack([pts, pts[:, perm] * np.array([0.9, 1.1, 0.8, 1.0, 1.05])[:, None]])


def _settings():
    from mc import fixtures as F

    return F.feature_settings("VJ2", normalize=False)  # 3 semilocal (npa) + 2 nonlocal raw features


def _numdiff(f, x, idx, scale):
    """Richardson central difference of f (returns array over samples) w.r.t. x[idx] (+h for all samples)."""
    ds = []
    for h in (2e-3, 1e-3):
        hh = h * scale
        xp = x.copy()
        xp[idx] += hh
        xm = x.copy()
        xm[idx] -= hh
        ds.append((f(xp) - f(xm)) / (2 * hh))
    return (4 * ds[1] - ds[0]) / 3, np.abs(ds[0] - ds[1])


def _model(case):
    from mc import fixtures as F

    st = _settings()
    evs = tuple(case["ev"].split("+"))
    if case["mode"] == "POL":
        evs = ("SpinRBF",)
    add = None if case["add"] == "None" else case["add"]
    return F.make_mlxc(st, evals=evs, mode=case["mode"], mul=case["mul"], add=add, seed=case["seed"],
                       libxc=(case["kind"] == "libxc"))


def run_native(case):
    nspin = case["nspin"]
    cfg = case_label(case)
    fails = []
    try:
        ml = _model(case)
        X = _lattice(nspin)
        Xin = X.copy()
        res, dres = ml(Xin, rhocut=case["rhocut"])
    except Exception as e:  # a listed class/baseline that cannot be evaluated at all
        return {"fail": [{"key": "cannot-evaluate;mul=%s;add=%s;%s" % (case["mul"], case["add"], type(e).__name__),
                          "msg": "model with %s raised %s: %s" % (cfg, type(e).__name__, str(e)[:200])}],
                "evals": 1, "outcome": "raised"}
    evals = 1
    if not np.array_equal(Xin, X):
        fails.append({"key": "input-mutated;" + cfg, "msg": "MappedXC.__call__ modified its feature array"})
    # the same feature values in other memory layouts (samples-major storage viewed feature-major; every second column of a
    # wider array): accepted input must give the same result, whatever the C layer underneath expects
    views = {"samples-major": np.ascontiguousarray(X.transpose(0, 2, 1)).transpose(0, 2, 1),
             "strided-columns": np.repeat(X, 2, axis=2)[:, :, ::2]}
    for vname, Xv in views.items():
        try:
            rv, dv = ml(Xv, rhocut=case["rhocut"])
        except (ValueError, AssertionError):
            continue  # a rejected layout is not a wrong answer
        evals += 1
        sc_ = 1 + max(np.abs(res).max(), np.abs(dres).max())
        if not (np.abs(np.asarray(rv) - res).max() <= 1e-13 * sc_ and np.abs(np.asarray(dv) - dres).max() <= 1e-13 * sc_):
            fails.append({"key": "layout-dependent;%s;%s" % (vname, cfg),
                          "msg": "the same features passed as a %s view give another result: energy differs by %.3e, derivative by %.3e" % (
                              vname, np.abs(np.asarray(rv) - res).max(), np.abs(np.asarray(dv) - dres).max())})
    if res.shape != (X.shape[2],) or dres.shape != X.shape:
        fails.append({"key": "shape;" + cfg, "msg": "res/dres shapes %s %s" % (res.shape, dres.shape)})
        return {"fail": fails, "evals": evals, "outcome": "shape"}
    und = 0
    worst = 0.0
    f = lambda x: ml(x.copy(), rhocut=case["rhocut"])[0]
    dscale = 1.0 + np.abs(dres).max()
    for s in range(nspin):
        for i in range(X.shape[1]):
            sc = X[s, i].copy()
            sc = np.maximum(np.abs(sc), 0.05)
            num, wit = _numdiff(f, X, (s, i), sc)
            evals += 4
            ok = wit <= 1e-6 * dscale
            und += int((~ok).sum())
            err = np.abs(num - dres[s, i])[ok]
            if err.size and err.max() > worst:
                worst = float(err.max())
            if err.size and err.max() > 2e-8 * dscale:
                g = np.where(ok)[0][np.argmax(err)]
                fails.append({"key": "dres!=dres/dx;" + ";".join("%s=%s" % (k, case[k]) for k in ("ev", "mode", "nspin", "mul", "add", "rhocut")),
                              "msg": "d res/d X[spin %d, feature %d] = %.10g numerically but dres = %.10g at X=%s (%s)" % (
                                  s, i, num[g], dres[s, i, g], X[:, :, g].tolist(), cfg),
                              "observed": float(dres[s, i, g]), "expected": float(num[g])})
                break
    if und > 0.1 * nspin * X.shape[1] * X.shape[2]:
        fails.append({"key": "harness-undecided;" + cfg, "confirm": False, "msg": "%d undecided derivative entries" % und})
    return {"fail": fails, "evals": evals, "undecided": und,
            "outcome": [float("%.8e" % res.sum()), float("%.8e" % np.abs(dres).sum())], "info": {"worst": worst}}


def _rho_tuple(nspin, n):
    rho = np.linspace(0.04, 2.5, n)[None] * np.ones((nspin, 1))
    if nspin == 2:
        rho = rho * np.array([[0.6], [0.4]]) * (1 + 0.3 * np.sin(np.arange(n))[None] * np.array([[1], [-1]]))
    g = np.stack([0.3 * rho[s] ** (4.0 / 3) * (1 + 0.5 * np.cos(np.arange(n) + s)) for s in range(nspin)])
    if nspin == 1:
        sigma = (g * g)
    else:
        c = 0.4 * np.sin(0.7 * np.arange(n))  # cosine between the two gradients
        sigma = np.stack([g[0] ** 2, g[0] * g[1] * c, g[1] ** 2])
    tauw = np.stack([sigma[0 if s == 0 else -1] / (8 * rho[s]) for s in range(nspin)])
    tau = tauw + 0.6 * 2.871 * rho ** (5.0 / 3) * (0.5 + 0.5 * np.cos(0.3 * np.arange(n)) ** 2)
    return [np.asfortranarray(rho), np.asfortranarray(sigma), np.asfortranarray(tau)]


def run_libxc(case):
    nspin = case["nspin"]
    cfg = case_label(case)
    fails = []
    X = _lattice(nspin)
    n = X.shape[2]
    rt = _rho_tuple(nspin, n)
    mutated = False
    try:
        ml = _model(case)
        Xin = X.copy()
        rin = tuple(r.copy(order="F") for r in rt)
        res, dres, vt = ml(Xin, rin, rhocut=case["rhocut"])
        if not np.array_equal(Xin, X) or any(not np.array_equal(a, b) for a, b in zip(rin, rt)):
            mutated = True
    except Exception as e:
        return {"fail": [{"key": "cannot-evaluate;x;mul=%s;add=%s;mode=%s;%s" % (case["mul"], case["add"], case["mode"], type(e).__name__),
                          "msg": "libxc-baseline model %s raised %s: %s" % (cfg, type(e).__name__, str(e)[:200])}],
                "evals": 1, "outcome": "raised"}
    evals = 1
    und = 0
    if mutated:
        fails.append({"key": "input-mutated;x;" + cfg, "msg": "MappedXC2.__call__ modified its feature array or density tuple"})
    # other memory layouts of the same values (features samples-major; density tuple entries as strided views)
    try:
        Xv = np.ascontiguousarray(X.transpose(0, 2, 1)).transpose(0, 2, 1)
        rtv = tuple(np.repeat(np.asarray(r), 2, axis=-1)[..., ::2] for r in rt)
        rv, dv, vtv = ml(Xv, rtv, rhocut=case["rhocut"])
        evals += 1
        sc_ = 1 + max(np.abs(res).max(), np.abs(dres).max())
        dvt = max(np.abs(np.asarray(a) - np.asarray(b)).max() for a, b in zip(vtv, vt))
        if not (np.abs(np.asarray(rv) - res).max() <= 1e-13 * sc_ and np.abs(np.asarray(dv) - dres).max() <= 1e-13 * sc_ and dvt <= 1e-13 * (1 + max(np.abs(np.asarray(a)).max() for a in vt))):
            fails.append({"key": "layout-dependent;x;" + cfg,
                          "msg": "the same features / densities passed as strided views give another result: energy differs by %.3e, feature derivative by %.3e, density potential by %.3e" % (
                              np.abs(np.asarray(rv) - res).max(), np.abs(np.asarray(dv) - dres).max(), dvt)})
    except (ValueError, AssertionError):
        pass  # a rejected layout is not a wrong answer
    worst = 0.0
    ck = ";".join("%s=%s" % (k, case[k]) for k in ("ev", "mode", "nspin", "mul", "add", "rhocut"))

    def fx(x):
        return ml(x.copy(), tuple(r.copy(order="F") for r in rt), rhocut=case["rhocut"])[0]

    dscale = 1.0 + np.abs(dres).max()
    for s in range(nspin):
        for i in range(X.shape[1]):
            sc = np.maximum(np.abs(X[s, i]), 0.05)
            num, wit = _numdiff(fx, X, (s, i), sc)
            evals += 4
            ok = wit <= 1e-6 * dscale
            und += int((~ok).sum())
            err = np.abs(num - dres[s, i])[ok]
            if err.size:
                worst = max(worst, float(err.max()))
            if err.size and err.max() > 2e-8 * dscale:
                g = np.where(ok)[0][np.argmax(err)]
                fails.append({"key": "x;dres!=dres/dx;" + ck,
                              "msg": "d res/d X[spin %d, feature %d] = %.10g numerically but dres = %.10g (%s)" % (s, i, num[g], dres[s, i, g], cfg)})
                break
    # derivatives w.r.t. rho, sigma, tau
    names = ["rho", "sigma", "tau"]
    for k in range(3):
        for c in range(rt[k].shape[0]):
            def fr(a, k=k):
                t = [r.copy(order="F") for r in rt]
                t[k] = np.asfortranarray(a)
                return ml(X.copy(), tuple(t), rhocut=case["rhocut"])[0]
            if k == 1 and nspin == 2 and c == 1:
                sc = np.sqrt(rt[1][0] * rt[1][2]) * 0.2 + 1e-3
            else:
                sc = np.maximum(np.abs(rt[k][c]), 1e-3) * 0.2
            num, wit = _numdiff(fr, np.array(rt[k]), (c,), sc)
            evals += 4
            vs = 1.0 + np.abs(vt[k]).max()
            ok = wit <= 1e-5 * vs
            # stay away from the cutoff step in rho
            if k == 0 and case["rhocut"] > 0:
                tot = rt[0].sum(0) if case["mode"] != "SEP" else rt[0][c]
                ok &= np.abs(tot - case["rhocut"]) > 3e-3 * sc * 2 + 1e-12
            und += int((~ok).sum())
            err = np.abs(num - vt[k][c])[ok]
            if err.size:
                worst = max(worst, float(err.max() / vs))
            if err.size and err.max() > 2e-7 * vs:
                g = np.where(ok)[0][np.argmax(err)]
                fails.append({"key": "x;v%s!=dres/d%s;" % (names[k], names[k]) + ck,
                              "msg": "d res/d %s[%d] = %.10g numerically but returned %.10g at sample %d (%s)" % (
                                  names[k], c, num[g], vt[k][c][g], g, cfg)})
    return {"fail": fails, "evals": evals, "undecided": und,
            "outcome": [float("%.8e" % res.sum()), float("%.8e" % np.abs(dres).sum())], "info": {"worst": worst}}


def run_eval(case):
    """Evaluator-level: buffers are added to (not overwritten); a list of two equals the sum;
    results are independent of the batch size (chunking)."""
    from mc import fixtures as F

    st = _settings()
    fl = F.feature_list_for(st, case["seed"])
    ev = F.make_evaluator(case["ev"], fl, case["seed"], salt=3)
    n = case["n"]
    n1 = fl.nfeat
    lo, hi = F._bounds(fl)  # evaluation stays inside the feature bounds (nothing is claimed outside)
    u = 0.08 + 0.8 * np.linspace(0.0, 1.0, 7 * n1).reshape(7, n1)[:, ::-1] * np.linspace(0.6, 1.0, n1)
    base = lo + (hi - lo) * u
    reps = -(-n // 7)
    X1 = np.tile(base, (reps, 1))[:n] + 1e-5 * (hi - lo) * ((np.arange(n) // 7) % 4000)[:, None]
    fails = []
    ck = "eval=%s;n=%d" % (case["ev"], n)
    if case["ev"] == "SpinRBF":
        X1 = np.stack([X1, lo + 0.9 * (X1[::-1] - lo)])
        shape_res = (n,)
    else:
        shape_res = (n,)
    r0, d0 = ev(X1.copy())
    r0 = r0.copy()
    d0 = d0.copy()
    pre_r = np.linspace(1, 2, n)
    pre_d = np.ones_like(d0) * 0.25
    r1, d1 = ev(X1.copy(), pre_r.copy(), pre_d.copy())
    tol = 1e-13 * (1 + np.abs(r0).max() + np.abs(d0).max())
    if np.abs((r1 - pre_r) - r0).max() > tol or np.abs((d1 - pre_d) - d0).max() > tol:
        fails.append({"key": "accumulate;eval=%s" % case["ev"], "msg": "passed-in buffers are not added to (%s)" % ck})
    # batch independence: sample i alone == sample i in the batch
    for i in sorted(set([0, n // 2, n - 1])):
        xi = X1[..., i:i + 1, :].copy()
        ri, di = ev(xi)
        if abs(ri[0] - r0[i]) > tol or np.abs(di[..., 0, :] - d0[..., i, :]).max() > tol:
            fails.append({"key": "batch;eval=%s;n=%d" % (case["ev"], n),
                          "msg": "sample %d evaluated alone differs from its value in a batch of %d: %.3e" % (i, n, abs(ri[0] - r0[i]))})
    # derivative of the evaluator itself (value vs gradient), all inputs
    if n <= 162:
        for j in range(n1):
            for s in range(X1.shape[0] if X1.ndim == 3 else 1):
                ds = []
                for h in (2e-3, 1e-3):
                    xp, xm = X1.copy(), X1.copy()
                    if X1.ndim == 3:
                        xp[s, :, j] += h
                        xm[s, :, j] -= h
                    else:
                        xp[:, j] += h
                        xm[:, j] -= h
                    ds.append((ev(xp)[0] - ev(xm)[0]) / (2 * h))
                num = (4 * ds[1] - ds[0]) / 3
                an = d0[s, :, j] if X1.ndim == 3 else d0[:, j]
                if np.abs(num - an).max() > 2e-8 * (1 + np.abs(d0).max()):
                    fails.append({"key": "eval-grad;eval=%s" % case["ev"],
                                  "msg": "evaluator gradient wrt input %d differs from numeric derivative by %.3e (%s)" % (j, np.abs(num - an).max(), ck)})
    return {"fail": fails, "evals": 6 + 4 * n1, "outcome": [float("%.8e" % r0.sum()), n]}


def run_baseline_edge(case):
    from ciderpress.dft.baselines import BASELINE_CODES

    name, nspin = case["base"], case["nspin"]
    fn = BASELINE_CODES.get(name)
    ck = "base=%s;nspin=%d" % (name, nspin)
    if fn is None:
        return {"fail": [], "evals": 0, "outcome": [ck, "no native function"]}
    rho = [1e-6, 0.3, 50.0]
    p = [0.0, 1e-12, 1e-9, 3e-8, 1e-6, 1e-3, 0.4, 30.0, 1e4]
    al = [0.0, 1e-9, 1e-3, 1.0, 50.0, 1e4]
    pts = np.array(list(itertools.product(rho, p, al))).T  # (3, n)
    n = pts.shape[1]
    X = np.zeros((nspin, 5, n))
    X[:, :3] = pts
    X[:, 3] = 0.2
    X[:, 4] = 1.2
    if nspin == 2:
        X[1, :3] = pts[:, np.roll(np.arange(n), 11)]
    fails = []
    try:
        e0, d0 = fn(X.copy())
    except Exception as ex:
        return {"fail": [{"key": "cannot-evaluate;baseline-edge;%s;%s" % (ck, type(ex).__name__), "msg": "baseline raised %s: %s" % (type(ex).__name__, str(ex)[:150])}], "evals": 1, "outcome": "raised"}
    e0 = np.asarray(e0, float)
    d0 = np.asarray(d0, float)
    evals = 1
    if not (np.all(np.isfinite(e0)) and np.all(np.isfinite(d0))):
        bad = np.argwhere(~np.isfinite(d0))[:1]
        fails.append({"key": "nonfinite;baseline-edge;" + ck, "msg": "baseline or its derivative is not finite on the edge lattice (first at %s, X = %s)" % (
            bad.tolist(), X[:, :3, bad[0][-1]].tolist() if len(bad) else "-")})
        return {"fail": fails, "evals": evals, "outcome": [ck, "nonfinite"]}
    und = 0
    for s_, j in itertools.product(range(nspin), range(3)):
        x = X[s_, j]
        est = []
        for rel in (2e-3, 1e-3):
            # steps of rel * max(x, 1e-6): large enough for the energy difference to rise above rounding, small enough
            # (<= 2e-9 near zero) to stay inside a small-argument branch; one-sided where x - h would leave the domain
            h = rel * np.maximum(x, 1e-6)
            one_sided = h > 0.5 * x
            Xp, Xm, X2 = X.copy(), X.copy(), X.copy()
            Xp[s_, j] = x + h
            Xm[s_, j] = np.where(one_sided, x, x - h)
            X2[s_, j] = x + 2 * h
            ep, em, e2 = (np.asarray(fn(A)[0], float) for A in (Xp, Xm, X2))
            evals += 3
            central = (ep - em) / (2 * h)
            forward = (-3 * em + 4 * ep - e2) / (2 * h)  # em == e(x) on the one-sided points
            est.append(np.where(one_sided, forward, central))
        num = (4 * est[1] - est[0]) / 3
        wit = np.abs(est[1] - est[0])
        got = d0[s_, j] if d0.ndim == 3 else d0[j]
        scale = 1 + np.abs(num)
        smooth = wit <= 1e-4 * scale
        und += int((~smooth).sum())
        err = np.where(smooth, np.abs(got - num) / scale, 0.0)
        if err.max() > 2e-4:
            k = int(np.argmax(err))
            fails.append({"key": "baseline-derivative;%s;feature=%d" % (ck, j),
                          "msg": "d e / d X[spin %d, feature %d] = %.8g numerically but %.8g returned at (rho, s2, alpha) = %s" % (s_, j, num[k], got[k], X[s_, :3, k].tolist())})
    return {"fail": fails, "evals": evals, "undecided": und, "outcome": [ck, float("%.8e" % np.abs(e0).sum())], "info": {"undecided_points": und, "points": n}}


def run_case(case):
    if case["kind"] == "baseline-edge":
        return run_baseline_edge(case)
    if case["kind"] == "native":
        return run_native(case)
    if case["kind"] == "libxc":
        return run_libxc(case)
    return run_eval(case)
