"""C18 - bookkeeping is consistent, bad input is rejected, C calls stay within buffers.
Engine E1 (+ AddressSanitizer build), DESIGN.md section 5/C18.

(i)   valid : every combination of feature families in a FeatureSettings (presence patterns x
              class choices x semilocal mode x rho_mult): nfeat, get_feat_loc, the scaling-power
              list, the UEG vector and the recommended-normaliser list all have the same length,
              equal to the number of features the generators actually return.
(ii)  invalid: single-fault alphabet per constructor (each argument in turn replaced by each bad
              value) -> must raise (any Exception; assert-based rejection counts).
(iii) memory : the accepted calls (every harness body of C10 = every Python-reachable C entry
              point on small layouts with offsets/strides, end-to-end integrator calls, FFT plans)
              run on the -fsanitize=address build under vgomp team sizes 1 and 3; any
              AddressSanitizer report is a violation.
"""
import itertools
import json
import os
import subprocess

import numpy as np

ID = "C18"
VARIANT = "plain"
LEVEL_RULE = (
    "states = FeatureSettings combinations (valid half), (constructor, argument, bad value) triples (invalid half), and "
    "ASan-instrumented executions of every accepted C entry point; outcome = (combination, counts) / rejection / clean run"
)
ASSUMPTIONS = [
    "single-fault alphabet for invalid input (two simultaneous faults not enumerated)",
    "AddressSanitizer detects out-of-bounds heap/stack/global accesses of the instrumented libraries; reads of uninitialised memory are not detected (MemorySanitizer needs an instrumented Python)",
    "a NotImplementedError from get_reasonable_normalizer means 'no recommended normaliser exists for this combination' and is not counted as an inconsistency",
]
NLDFS = [None, "VJ", "VI", "VIJ", "VK", "VIJ2", "VI0", "VJ2", "VIx"]
SDMXS = [None, "SDMX", "SDMX1", "SDMXG", "SDMXG1", "SDMXFull", "SADM", "SDMXG1-all"]
NLOFS = [None, "FL0", "FL1", "FLd"]


def initial_cases(tier, seed):
    cases = []
    for sl, nldf, nlof, sdmx, rm in itertools.product(["npa", "nst", "np", "ns"], NLDFS, NLOFS, SDMXS, ["one", "expnt"]):
        if nldf is None and rm == "expnt":
            continue
        cases.append({"kind": "valid", "sl": sl, "nldf": nldf, "nlof": nlof, "sdmx": sdmx, "rho_mult": rm, "seed": seed})
    for fam, sl, rm in itertools.product(["VJ", "VI", "VIJ", "VK", "VIx", "SDMX", "SDMX1", "SDMXG1", "SDMXFull", "SADM", "VIJ+SDMXG", "SL"],
                                         ["npa", "nst", "np", "ns"], ["one", "expnt"]):
        if rm == "expnt" and not fam.startswith("V"):
            continue
        for nspin in (1, 2):
            cases.append({"kind": "count", "fam": fam, "sl": sl, "rho_mult": rm, "nspin": nspin, "seed": seed})
    for name in INVALID:
        cases.append({"kind": "invalid", "ctor": name, "seed": seed})
    # index-pair lattice: list lengths varied independently so that "which list bounds this index" is decided
    for ctor in ("VI", "VIJ", "FracLapl-l1", "FracLapl-ld"):
        for n0, n1, n2 in itertools.product((1, 2, 3), repeat=3):
            cases.append({"kind": "dots", "ctor": ctor, "n0": n0, "n1": n1, "n2": n2, "seed": seed})
    # a process-local subset of the exponent ladder (proc_inds) is a column subset of the full coefficient set
    for plan, order, (fam, i), proc in itertools.product(("gaussian", "spline"), ("gq", "qg"), (("VK", -1), ("VK", 0), ("VIJ", -1), ("VIJ", 0), ("VJ", 1)),
                                                          ([1, 3, 4], [0], [6, 2], list(range(7)))):
        cases.append({"kind": "procinds", "plan": plan, "order": order, "fam": fam, "i": i, "proc": proc, "seed": seed})
    for team in (1, 3):
        for part in range(8):
            cases.append({"kind": "asan", "team": team, "part": part, "nparts": 8, "tier": tier, "seed": seed})
    return cases


def case_label(c):
    return ";".join("%s=%s" % (k, c[k]) for k in c if k not in ("seed", "tier", "nparts"))


def _nlof(name):
    from ciderpress.dft import settings as S

    if name == "FL0":
        return S.FracLaplSettings([-0.5, 0.5, 1.0], 2, 0, [])
    if name == "FL1":
        return S.FracLaplSettings([-0.5, 0.5, 1.0], 3, 2, [(0, 0), (-1, 1), (0, 1)])
    if name == "FLd":
        return S.FracLaplSettings([-0.5, 0.5], 2, 1, [(-1, 0)], nd1=2, ld_dots=[(0, 1), (-1, 0)], ndd=1)
    return None


def run_valid(case):
    from ciderpress.dft import settings as S

    from mc import fixtures as F

    fails = []
    sl = S.SemilocalSettings(case["sl"])
    ck = "sl=%s;nldf=%s;nlof=%s;sdmx=%s;rho_mult=%s" % (case["sl"], case["nldf"], case["nlof"], case["sdmx"], case["rho_mult"])
    nldf = F.nldf_settings(case["nldf"], sl.level, case["rho_mult"]) if case["nldf"] else None
    sdmx = F.sdmx_settings(case["sdmx"]) if case["sdmx"] else None
    nlof = _nlof(case["nlof"])
    st = S.FeatureSettings(sl_settings=sl, nldf_settings=nldf, nlof_settings=nlof, sdmx_settings=sdmx)
    parts = [sl.nfeat, nldf.nfeat if nldf else 0, nlof.nfeat if nlof else 0, sdmx.nfeat if sdmx else 0]
    n = st.nfeat
    if n != sum(parts):
        fails.append({"key": "nfeat-sum;" + ck, "msg": "nfeat %d != sum of family counts %s" % (n, parts)})
    loc = np.asarray(st.get_feat_loc())
    if loc[0] != 0 or loc[-1] != n or np.any(np.diff(loc) < 0) or list(np.diff(loc)[:4]) != parts:
        fails.append({"key": "feat-loc;" + ck, "msg": "get_feat_loc %s inconsistent with family counts %s" % (loc.tolist(), parts)})

    def length_of(name, fn):
        try:
            v = fn()
        except NotImplementedError:
            return None
        except Exception as e:
            import traceback

            tb = traceback.extract_tb(e.__traceback__)[-1]
            fails.append({"key": "accessor-raises;%s;%s;at=%s:%s" % (name, type(e).__name__, os.path.basename(tb.filename), tb.name),
                "msg": "%s raised %s: %s for valid settings %s" % (name, type(e).__name__, str(e)[:150], ck)})
            return None
        return len(v)

    lens = {"usps": length_of("get_feat_usps", st.get_feat_usps), "ueg": length_of("ueg_vector", st.ueg_vector),
            "normalizer": length_of("get_reasonable_normalizer", st.get_reasonable_normalizer)}
    for k, v in lens.items():
        if v is not None and v != n:
            fails.append({"key": "length;%s;%s" % (k, ck), "msg": "len(%s) = %d but nfeat = %d" % (k, v, n)})
    # with normalisers assigned the normalised accessors keep their length
    if lens["normalizer"] == n:
        st.assign_reasonable_normalizer()
        for nm, fn in (("usps+norm", lambda: st.get_feat_usps(with_normalizers=True)), ("ueg+norm", lambda: st.ueg_vector(with_normalizers=True))):
            v = length_of(nm, fn)
            if v is not None and v != n:
                fails.append({"key": "length;%s;%s" % (nm, ck), "msg": "len(%s) = %d but nfeat = %d" % (nm, v, n)})
        if st.normalizers.nfeat != n:
            fails.append({"key": "length;normalizer-list;" + ck, "msg": "normaliser list has %d entries, nfeat = %d" % (st.normalizers.nfeat, n)})
    return {"fail": fails, "evals": 6, "outcome": [ck, n, lens["normalizer"]]}


def run_count(case):
    """nfeat equals what the generators actually produce."""
    from ciderpress.dft.plans import SemilocalPlan

    from mc import fixtures as F

    fails = []
    fam, slm, nspin = case["fam"], case["sl"], case["nspin"]
    ck = "fam=%s;sl=%s;rho_mult=%s;nspin=%d" % (fam, slm, case["rho_mult"], nspin)
    st = F.feature_settings(fam, slmode=slm, rho_mult=case["rho_mult"], normalize=False)
    mol = F.make_mol("HF")
    from checks import c07

    got = 0
    n = 40
    rho = c07._rho_data(n, case["seed"])
    sl_feat = SemilocalPlan(st.sl_settings, nspin).get_feat(np.stack([rho / nspin] * nspin))
    if sl_feat.shape != (nspin, st.sl_settings.nfeat, n):
        fails.append({"key": "count;semilocal;" + ck, "msg": "semilocal plan returns %s features, settings say %d" % (sl_feat.shape, st.sl_settings.nfeat)})
    got += sl_feat.shape[1]
    if st.has_nldf:
        c = {"fam": [p for p in fam.split("+") if p.startswith("V")][0], "sl": slm, "rho_mult": case["rho_mult"], "plan": "gaussian"}
        st2, grids, g1, g2 = c07._nldf_gens(c, mol)
        g = g1 if nspin == 1 else g2
        r = c07._rho_on_grid(mol, grids, F.make_dm(mol, "D1", case["seed"]), st.sl_settings.level) / nspin
        f = g.get_features(r, spin=nspin - 1)
        if f.shape[0] != st.nldf_settings.nfeat:
            fails.append({"key": "count;nldf;" + ck, "msg": "NLDF generator returns %d features, settings say %d" % (f.shape[0], st.nldf_settings.nfeat)})
        v = g.get_potential(np.ones_like(f) * grids.weights * r[0], spin=nspin - 1)
        if v.shape != r.shape:
            fails.append({"key": "count;nldf-potential;" + ck, "msg": "NLDF potential shape %s != density shape %s" % (v.shape, r.shape)})
        got += f.shape[0]
    if st.has_sdmx:
        from ciderpress.pyscf.sdmx import PySCFSDMXInitializer

        gen = PySCFSDMXInitializer(st.sdmx_settings, lowmem=False).initialize_sdmx_generator(mol, nspin)
        coords = mol.atom_coords()[[0, 1, 0]] + np.array([[0.1, 0.2, 0.3], [0.5, -0.2, 0.1], [-0.9, 0.0, 0.4]])
        f = gen.get_features(F.make_dm(mol, "D1", case["seed"]) / nspin, mol, np.ascontiguousarray(coords))
        if f.shape[0] != st.sdmx_settings.nfeat:
            fails.append({"key": "count;sdmx;" + ck, "msg": "SDMX generator returns %d features, settings say %d" % (f.shape[0], st.sdmx_settings.nfeat)})
        got += f.shape[0]
    if got != st.nfeat:
        fails.append({"key": "count;total;" + ck, "msg": "generators produce %d features, FeatureSettings.nfeat = %d" % (got, st.nfeat)})
    return {"fail": fails, "evals": 3, "outcome": [ck, got]}


# ----------------------------------------------------------------------------- invalid input
def _inv_nldf_common(make):
    """make(sl_level, theta, rho_mult) -> constructor call with the remaining args valid."""
    out = []
    good = ("MGGA", [1.0, 0.03, 0.02], "one")
    bads = [
        ("sl_level", 0, ["LDA", "mgga", "", None, 3]),
        ("theta_params", 1, [[1.0, 0.03], [1.0, 0.03, 0.02, 0.1], [0.0, 0.03, 0.02], [-1.0, 0.03, 0.02], [1.0, -0.1, 0.02],
                             [1.0, 0.03, -0.5], (1.0, 0.03, 0.02), np.array([1.0, 0.03, 0.02]), ["a", 0.03, 0.02], None, 1.0]),
        ("rho_mult", 2, ["two", "ONE", "", None]),
    ]
    for name, pos, vals in bads:
        for v in vals:
            args = list(good)
            args[pos] = v
            out.append(("%s=%r" % (name, v), (lambda a=tuple(args): make(*a))))
    return out


def _build_invalid():
    from ciderpress.dft import feat_normalizer as N
    from ciderpress.dft import plans as P
    from ciderpress.dft import settings as S
    from ciderpress.dft import xc_evaluator as X

    from mc import fixtures as F

    T = {}
    P1, P2 = [2.0, 0.06, 0.04], [0.5, 0.016, 0.01]
    T["SemilocalSettings"] = [("mode=%r" % m, (lambda m=m: S.SemilocalSettings(m))) for m in ("NST", "nsp", "", None, 3, "mgga")]
    T["NLDFSettingsVJ"] = _inv_nldf_common(lambda a, b, c: S.NLDFSettingsVJ(a, b, c, ["se", "se_ar2"], [P1, P2])) + [
        ("feat_specs=%r" % (v,), (lambda v=v: S.NLDFSettingsVJ("MGGA", [1.0, 0.03, 0.02], "one", v, [P1, P2])))
        for v in (["se", "se_r2"], ["se", "bogus"], ["se"], ["se", "se_ar2", "se"], ["SE", "se"], [1, 2])] + [
        ("feat_params=%r" % (v,), (lambda v=v: S.NLDFSettingsVJ("MGGA", [1.0, 0.03, 0.02], "one", ["se", "se_ar2"], v)))
        for v in ([P1], [P1, P2, P1], [P1, [0.5, 0.016]], [P1, [0.0, 0.016, 0.01]], [P1, [-1.0, 0.016, 0.01]], [P1, P2 + [0.7]], [P1, None])] + [
        ("erf_rinv params=%r" % (v,), (lambda v=v: S.NLDFSettingsVJ("MGGA", [1.0, 0.03, 0.02], "one", ["se_erf_rinv"], [v])))
        for v in (P1, P1 + [0.5, 0.5])]
    T["NLDFSettingsVI"] = _inv_nldf_common(lambda a, b, c: S.NLDFSettingsVI(a, b, c, ["se_r2"], ["se_grad"], [(0, 0)])) + [
        ("l0_specs=%r" % (v,), (lambda v=v: S.NLDFSettingsVI("MGGA", [1.0, 0.03, 0.02], "one", v, ["se_grad"], [(0, 0)])))
        for v in (["se_grad"], ["bogus"], ["se_ar2"], [3])] + [
        ("l1_specs=%r" % (v,), (lambda v=v: S.NLDFSettingsVI("MGGA", [1.0, 0.03, 0.02], "one", ["se_r2"], v, [(0, 0)])))
        for v in (["se_r2"], ["bogus"], [None])] + [
        ("l1_dots=%r" % (v,), (lambda v=v: S.NLDFSettingsVI("MGGA", [1.0, 0.03, 0.02], "one", ["se_r2"], ["se_grad"], v)))
        for v in ([(0, 1)], [(1, 0)], [(-2, 0)], [(0, 0, 0)], [(0,)], [0], [(0, 5)], [(-1, 1)])]
    T["NLDFSettingsVIJ"] = _inv_nldf_common(lambda a, b, c: S.NLDFSettingsVIJ(a, b, c, ["se_r2"], ["se_grad"], [(0, 0)], ["se"], [P1])) + [
        ("dots=%r" % (v,), (lambda v=v: S.NLDFSettingsVIJ("MGGA", [1.0, 0.03, 0.02], "one", ["se_r2"], ["se_grad"], v, ["se"], [P1])))
        for v in ([(0, 1)], [(2, 2)], [(-2, -1)])] + [
        ("jparams=%r" % (v,), (lambda v=v: S.NLDFSettingsVIJ("MGGA", [1.0, 0.03, 0.02], "one", ["se_r2"], ["se_grad"], [(0, 0)], ["se"], v)))
        for v in ([], [P1, P2], [[0.0, 0.1, 0.1]])]
    T["NLDFSettingsVK"] = _inv_nldf_common(lambda a, b, c: S.NLDFSettingsVK(a, b, c, [P1, P2], "exponential")) + [
        ("rho_damp=%r" % (v,), (lambda v=v: S.NLDFSettingsVK("MGGA", [1.0, 0.03, 0.02], "one", [P1], v))) for v in ("none", "exp", "", None)] + [
        ("feat_params=%r" % (v,), (lambda v=v: S.NLDFSettingsVK("MGGA", [1.0, 0.03, 0.02], "one", v, "exponential")))
        for v in ([[0.0, 0.1, 0.1]], [[1.0, 0.1]], [P1 + [0.3]], [None])]
    T["NLDFSettings-GGA"] = [
        ("gga theta=%r" % (v,), (lambda v=v: S.NLDFSettingsVJ("GGA", v, "one", ["se"], [[2.0, 0.06]])))
        for v in ([1.0, 0.03, 0.02], [1.0], [0.0, 0.03], [1.0, -0.03])] + [
        ("gga feat_params=%r" % (v,), (lambda v=v: S.NLDFSettingsVJ("GGA", [1.0, 0.03], "one", ["se"], [v])))
        for v in ([2.0, 0.06, 0.04], [2.0], [-2.0, 0.06])]
    T["FracLaplSettings"] = [
        ("nk0>npow", lambda: S.FracLaplSettings([0.5], 2, 0, [])), ("nk1>npow", lambda: S.FracLaplSettings([0.5], 1, 2, [])),
        ("nd1>npow", lambda: S.FracLaplSettings([0.5], 1, 0, [], nd1=2)), ("ndd>nd1", lambda: S.FracLaplSettings([0.5, 1.0], 1, 0, [], nd1=1, ndd=2)),
        ("l1_dots index", lambda: S.FracLaplSettings([0.5, 1.0], 1, 1, [(0, 1)])), ("l1_dots -2", lambda: S.FracLaplSettings([0.5, 1.0], 1, 1, [(-2, 0)])),
        ("l1_dots triple", lambda: S.FracLaplSettings([0.5, 1.0], 1, 1, [(0, 0, 0)])),
        ("ld_dots index", lambda: S.FracLaplSettings([0.5, 1.0], 1, 0, [], nd1=1, ld_dots=[(0, 1)])),
    ]
    T["SDMXSettings"] = [
        ("SADM mode=%r" % m, (lambda m=m: S.SADMSettings(m))) for m in ("Smooth", "fast", "", None)] + [
        ("SDMXG ndt>len", lambda: S.SDMXGSettings([0, 1], 3)), ("SDMX1 n1>len", lambda: S.SDMX1Settings([0], 2)),
        ("SDMXG1 nd>len", lambda: S.SDMXG1Settings([0, 1], 3, 1)), ("SDMXG1 n1>len", lambda: S.SDMXG1Settings([0, 1], 1, 3)),
        ("SDMXFull key<1", lambda: S.SDMXFullSettings({0.5: ([0], [1, 0, 0, 0])})),
        ("SDMXFull counts>npow", lambda: S.SDMXFullSettings({1.0: ([0], [2, 0, 0, 0])})),
        ("SDMXFull value shape", lambda: S.SDMXFullSettings({1.0: ([0], [1, 0, 0])})),
        ("SDMXFull value type", lambda: S.SDMXFullSettings({1.0: [0]})),
        ("SDMXFull None", lambda: S.SDMXFullSettings(None)),
    ]
    st = F.feature_settings("VIJ").nldf_settings
    T["NLDFPlan"] = []
    for cls in (P.NLDFGaussianPlan, P.NLDFSplinePlan):
        good = dict(nldf_settings=st, nspin=1, alpha0=0.1, lambd=2.0, nalpha=6)
        for name, vals in (("nldf_settings", [None, "VIJ", F.feature_settings("SL").sl_settings]), ("nspin", [0, 3, 1.5, "1"]),
                           ("alpha0", [0.0, -0.1]), ("lambd", [1.0, 0.5, -2.0]), ("nalpha", [0, -3, 6.0, 2.5]),
                           ("coef_order", ["QG", "g", None]), ("alpha_formula", ["ETB", "exp", None]), ("rhocut", [-1e-10]), ("expcut", [-1.0])):
            for v in vals:
                kw = dict(good)
                kw[name] = v
                T["NLDFPlan"].append(("%s %s=%r" % (cls.__name__, name, v), (lambda cls=cls, kw=kw: cls(**kw))))
    # exponent outside the interpolation range must raise instead of extrapolating
    plan = P.NLDFGaussianPlan(st, 1, 0.1, 2.0, 6)
    amax = float(plan.alphas.max())

    def big_expnt():
        rho = np.array([(amax * 4 / 2.0) ** 1.5])  # a ~ pi (rho/2)^(2/3) a0 >> alpha_max
        sigma = np.zeros(1)
        tau = 2.871 * rho ** (5.0 / 3)
        return plan.eval_feat_exp((rho, sigma, tau), i=-1)

    T["NLDFPlan"].append(("exponent above alpha_max", big_expnt))
    # the same guard for every plan class x semilocal level x spin count x feature index (separate code paths per level)
    for cls, level, nspin, i in itertools.product((P.NLDFGaussianPlan, P.NLDFSplinePlan), ("MGGA", "GGA"), (1, 2), (-1, 0, 1)):
        stl = F.feature_settings("VIJ", slmode="npa" if level == "MGGA" else "np").nldf_settings

        def big(cls=cls, stl=stl, nspin=nspin, i=i, level=level):
            pl = cls(stl, nspin, 0.1, 2.0, 6)
            am = float(pl.alphas.max())
            rho = np.array([(am * 40 / 2.0) ** 1.5, 0.3])
            sigma = np.zeros(2)
            rt = (rho, sigma, 2.871 * rho ** (5.0 / 3)) if level == "MGGA" else (rho, sigma)
            return pl.eval_feat_exp(rt, i=i)

        T["NLDFPlan"].append(("exponent above alpha_max %s %s nspin=%d i=%d" % (cls.__name__, level, nspin, i), big))
    T["NLDFPlan"].append(("feature index out of range", lambda: plan.eval_feat_exp((np.ones(2), np.zeros(2), np.ones(2)), i=7)))
    T["NLDFPlan"].append(("wrong number of interpolating points", lambda: plan.get_transformed_interpolation_terms(np.zeros((3, 5)), i=0)))
    # normaliser / model size mismatch, shapes
    nl = N.FeatNormalizerList([None, None, None, N.ConstantNormalizer(2.0)], "npa")
    T["FeatNormalizerList"] = [
        ("X0T 2-D", lambda: nl.get_normalized_feature_vector(np.ones((4, 10)))),
        ("X0T wrong nfeat", lambda: nl.get_normalized_feature_vector(np.ones((1, 5, 10)))),
        ("reverse wrong nfeat", lambda: nl.get_derivative_wrt_unnormed_features(np.ones((1, 4, 10)), np.ones((1, 3, 10)))),
        ("forward-derivative wrong ndim", lambda: nl.get_derivative_of_normed_features(np.ones((1, 4, 10)), np.ones((1, 4, 10)))),
        ("setitem", lambda: nl.__setitem__(0, None)),
    ]
    ml = F.make_mlxc(F.feature_settings("VJ2"))
    ev = ml.kernels[0].fevals[0]
    n1 = ml.kernels[0].feature_list.nfeat
    T["Evaluators"] = [
        ("res wrong shape", lambda: ev(np.zeros((5, n1)), np.zeros(4), np.zeros((5, n1)))),
        ("dres wrong shape", lambda: ev(np.zeros((5, n1)), np.zeros(5), np.zeros((5, n1 + 1)))),
        ("non FuncEvaluator", lambda: X.MappedDFTKernel([lambda x: x], ml.kernels[0].feature_list, "SEP", None)),
        ("ModelWithNormalizer size mismatch", lambda: X.ModelWithNormalizer(ml, N.FeatNormalizerList([None] * (ml.nfeat + 1), "npa"))),
        ("Kernel res wrong shape", lambda: F.make_evaluator("Kernel", ml.kernels[0].feature_list)(np.zeros((5, n1)), np.zeros(6), None)),
        ("Linear dres wrong shape", lambda: F.make_evaluator("Linear", ml.kernels[0].feature_list)(np.zeros((5, n1)), None, np.zeros((4, n1)))),
        ("Spline res wrong shape", lambda: F.make_evaluator("Spline", ml.kernels[0].feature_list)(np.zeros((5, n1)), np.zeros(3), None)),
    ]
    return T


INVALID = ["SemilocalSettings", "NLDFSettingsVJ", "NLDFSettingsVI", "NLDFSettingsVIJ", "NLDFSettingsVK", "NLDFSettings-GGA",
           "FracLaplSettings", "SDMXSettings", "NLDFPlan", "FeatNormalizerList", "Evaluators", "Wrappers", "Grids"]


def _wrappers_invalid():
    """Shape / contiguity / dtype checks in front of the ctypes calls."""
    from checks import c05

    mol, grids, gen = c05.make_gen("He-5x14-l2", fam="VIJ")
    ind = gen.grids_indexer
    ccl = gen.ccl
    it = gen.interpolator
    na = 2
    good_rlmq = lambda: np.zeros((ind.nrad, ind.nlm, na))
    good_gq = lambda: np.zeros((ind.ngrids, na))
    atco = ccl.atco_inp
    out = [
        ("angc: rlmq non-contiguous", lambda: ind.reduce_angc_ylm_(np.zeros((ind.nrad, ind.nlm, 2 * na))[:, :, ::2], good_gq())),
        ("angc: rlmq wrong nrad", lambda: ind.reduce_angc_ylm_(np.zeros((ind.nrad + 1, ind.nlm, na)), good_gq())),
        ("angc: rlmq wrong nlm", lambda: ind.reduce_angc_ylm_(np.zeros((ind.nrad, ind.nlm - 1, na)), good_gq())),
        ("angc: gq wrong ngrids", lambda: ind.reduce_angc_ylm_(good_rlmq(), np.zeros((ind.ngrids - 1, na)))),
        ("angc: gq float32", lambda: ind.reduce_angc_ylm_(good_rlmq(), np.zeros((ind.ngrids, na), dtype=np.float32))),
        ("angc: offset+nalpha > stride", lambda: ind.reduce_angc_ylm_(good_rlmq(), good_gq(), offset=1)),
        ("angc: gq non-contiguous", lambda: ind.reduce_angc_ylm_(good_rlmq(), np.zeros((ind.ngrids, 2 * na))[:, ::2])),
        ("rad2orb: p_uq wrong nao", lambda: atco.convert_rad2orb_(good_rlmq(), np.zeros((atco.nao + 1, na)), ind, ind.rad_arr)),
        ("rad2orb: offset+nalpha > stride", lambda: atco.convert_rad2orb_(good_rlmq(), np.zeros((atco.nao, na)), ind, ind.rad_arr, offset=1)),
        ("rad2orb: negative offset", lambda: atco.convert_rad2orb_(good_rlmq(), np.zeros((atco.nao, na + 1)), ind, ind.rad_arr, offset=-1)),
        ("rad2orb: rads wrong size", lambda: atco.convert_rad2orb_(good_rlmq(), np.zeros((atco.nao, na)), ind, ind.rad_arr[:-1].copy())),
        ("rad2orb: loc wrong dtype", lambda: atco.convert_rad2orb_(good_rlmq(), np.zeros((atco.nao, na)), ind.ra_loc.astype(np.int64), ind.rad_arr)),
        ("rad2orb: theta 2-D", lambda: atco.convert_rad2orb_(np.zeros((ind.nrad, ind.nlm)), np.zeros((atco.nao, na)), ind, ind.rad_arr)),
        ("ccl: input wrong nalpha", lambda: ccl.multiply_atc_integrals(np.zeros((ccl.atco_inp.nao, ccl.nalpha + 1)))),
        ("ccl: input wrong nao", lambda: ccl.multiply_atc_integrals(np.zeros((ccl.atco_inp.nao + 1, ccl.nalpha)))),
        ("ccl: bwd input wrong nbeta", lambda: ccl.multiply_atc_integrals(np.zeros((ccl.atco_out.nao, ccl.nbeta - 1)), fwd=False)),
        ("ccl: output wrong shape", lambda: ccl.multiply_atc_integrals(np.zeros((ccl.atco_inp.nao, ccl.nalpha)), output=np.zeros((ccl.atco_out.nao, ccl.nbeta + 1)))),
        ("ccl: non-contiguous input", lambda: ccl.multiply_atc_integrals(np.zeros((ccl.atco_inp.nao, 2 * ccl.nalpha))[:, ::2])),
        ("interp: grid2orb wrong shape", lambda: it.project_grid2orb(np.zeros((3, it.num_out)))),
        ("interp: orb2grid f_gq wrong shape", lambda: it.project_orb2grid(np.zeros((it.atco.nao, it.num_in)), f_gq=np.zeros((5, it.num_out)))),
        ("ConvolutionCollection: unknown feature id", lambda: type(ccl)(ccl.atco_inp, ccl.atco_out, gen.plan.alphas, gen.plan.alpha_norms, ifeat_ids=[999])),
        ("ConvolutionCollection: empty", lambda: type(ccl)(ccl.atco_inp, ccl.atco_out, gen.plan.alphas, gen.plan.alpha_norms, has_vj=False, ifeat_ids=[])),
        ("ConvolutionCollection: alpha_norms size", lambda: type(ccl)(ccl.atco_inp, ccl.atco_out, gen.plan.alphas, gen.plan.alpha_norms[:-1])),
        ("generator: lmax > grid lmax", lambda: c05.make_gen.__globals__["PySCFNLDFInitializer_bad"]()),
    ]
    out = out[:-1]
    # model evaluators in front of the C squared-exponential kernels: sizes that do not match must be rejected
    from ciderpress.dft import xc_evaluator as X
    from ciderpress.models import kernels as K

    rng = np.random.RandomState(3)
    Xc, al = rng.rand(6, 4), rng.randn(6)
    sub = K.SubsetRBF([1, 3], length_scale=np.array([0.4, 0.7]))
    full = K.DiffRBF(length_scale=np.array([0.4, 0.7, 0.5, 0.6]))
    out += [
        ("RBFEvaluator: control points wider than the subset kernel", lambda: X.RBFEvaluator(sub, Xc, al)),
        ("RBFEvaluator: control points narrower than the kernel", lambda: X.RBFEvaluator(full, Xc[:, :3], al)),
        ("RBFEvaluator: scaled subset kernel, full-width control points", lambda: X.RBFEvaluator(K.DiffConstantKernel(2.0) * sub, Xc, al)),
        ("SpinRBFEvaluator: control points narrower than the kernel", lambda: X.SpinRBFEvaluator(full, np.stack([Xc[:, :3], Xc[:, :3]]), al)),
        ("RBFEvaluator: result buffer of the wrong length", lambda: X.RBFEvaluator(full, Xc, al)(rng.rand(5, 4), res=np.zeros(4))),
        ("RBFEvaluator: derivative buffer of the wrong shape", lambda: X.RBFEvaluator(full, Xc, al)(rng.rand(5, 4), dres=np.zeros((5, 3)))),
    ]
    return out


def _grids_invalid():
    from ciderpress.pyscf.gen_cider_grid import CiderGrids
    from ciderpress.pyscf.nldf_convolutions import PySCFNLDFInitializer

    from mc import fixtures as F

    mol = F.make_mol("He")

    def bad_lmax0():
        g = CiderGrids(mol, lmax=0)
        g.atom_grid = (5, 14)
        return g.build(full_lmax=0)

    def bad_ang():
        g = CiderGrids(mol, lmax=4)
        g.atom_grid = (5, 15)
        return g.build(full_lmax=4)

    def gen_lmax_too_big():
        g = CiderGrids(mol, lmax=2)
        g.atom_grid = (5, 14)
        g.build(full_lmax=2)
        st = F.feature_settings("VJ").nldf_settings
        return PySCFNLDFInitializer(st, lmax=4).initialize_nldf_generator(mol, g.grids_indexer, 1)

    def bad_interp():
        g = CiderGrids(mol, lmax=2)
        g.atom_grid = (5, 14)
        g.build(full_lmax=2)
        st = F.feature_settings("VJ").nldf_settings
        return PySCFNLDFInitializer(st, interpolator_type="onsite").initialize_nldf_generator(mol, g.grids_indexer, 1)

    def bad_plan_type():
        g = CiderGrids(mol, lmax=2)
        g.atom_grid = (5, 14)
        g.build(full_lmax=2)
        st = F.feature_settings("VJ").nldf_settings
        return PySCFNLDFInitializer(st, plan_type="Gaussian").initialize_nldf_generator(mol, g.grids_indexer, 1)

    return [("CiderGrids lmax=0", bad_lmax0), ("unsupported angular grid size", bad_ang), ("generator lmax > grid lmax", gen_lmax_too_big),
            ("interpolator type", bad_interp), ("plan type", bad_plan_type)]


def run_invalid(case):
    name = case["ctor"]
    if name == "Wrappers":
        table = _wrappers_invalid()
    elif name == "Grids":
        table = _grids_invalid()
    else:
        table = _build_invalid()[name]
    fails = []
    for desc, fn in table:
        try:
            r = fn()
        except Exception:
            continue
        fails.append({"key": "accepted;%s;%s" % (name, desc.split("=")[0]), "msg": "%s: invalid input (%s) was accepted and returned %s" % (name, desc, type(r).__name__)})
    return {"fail": fails, "evals": len(table), "outcome": [name, len(table)]}


def run_dots(case):
    """Every index pair (a, b) in {-2..3}^2 for every combination of list lengths: accepted iff -1 <= a, b < number of
    vector specs the pair indexes (documented: 'indexes j,k for features to contract, -1 refers to the density gradient');
    an accepted object must have consistent bookkeeping."""
    from ciderpress.dft import settings as S

    fails = []
    ctor, n0, n1, n2 = case["ctor"], case["n0"], case["n1"], case["n2"]
    ck = "ctor=%s;n0=%d;n1=%d;n2=%d" % (ctor, n0, n1, n2)
    L0 = ["se_r2", "se_apr2", "se_ap"][:n0]
    L1 = ["se_grad", "se_rvec", "se_grad"][:n1]
    J = ["se", "se_ar2", "se_a2r4"][:n2]
    JP = [[2.0, 0.06, 0.04], [0.5, 0.016, 0.01], [1.0, 0.03, 0.02]][:n2]
    th = [1.0, 0.03, 0.02]
    if ctor == "VI":
        nvec = n1
        make = lambda d: S.NLDFSettingsVI("MGGA", th, "one", L0, L1, [d])
    elif ctor == "VIJ":
        nvec = n1
        make = lambda d: S.NLDFSettingsVIJ("MGGA", th, "one", L0, L1, [d], J, JP)
    elif ctor == "FracLapl-l1":
        # slist of 3 powers, nk0 = n0 scalar, nk1 = n1 vector, nd1 = n2 derivative-vector features
        nvec = n1
        make = lambda d: S.FracLaplSettings([-0.5, 0.5, 1.0], n0, n1, [d], nd1=n2, ld_dots=[], ndd=0)
    else:
        nvec = n2
        make = lambda d: S.FracLaplSettings([-0.5, 0.5, 1.0], n0, n1, [], nd1=n2, ld_dots=[d], ndd=0)
    ntry = 0
    for a, b in itertools.product(range(-2, 4), repeat=2):
        ok = -1 <= a < nvec and -1 <= b < nvec
        ntry += 1
        try:
            st = make((a, b))
        except Exception as e:
            if ok:
                fails.append({"key": "valid-rejected;%s" % ck, "msg": "index pair (%d, %d) is valid for %d vector specs but was rejected: %s: %s" % (a, b, nvec, type(e).__name__, str(e)[:100])})
            continue
        if not ok:
            fails.append({"key": "accepted;%s;index pair" % ck, "msg": "invalid index pair (%d, %d) accepted with %d vector specs (list lengths l0=%d, l1=%d, third=%d)" % (a, b, nvec, n0, n1, n2)})
            continue
        try:
            n = st.nfeat
            lens = {"usps": len(st.get_feat_usps())}
            try:
                lens["ueg"] = len(st.ueg_vector())
            except NotImplementedError:
                pass
            for k, v in lens.items():
                if v != n:
                    fails.append({"key": "length;%s;%s" % (k, ck), "msg": "len(%s) = %d but nfeat = %d for pair (%d, %d)" % (k, v, n, a, b)})
        except Exception as e:
            fails.append({"key": "accessor-raises;dots;%s;%s" % (type(e).__name__, ck), "msg": "accepted pair (%d, %d): %s: %s" % (a, b, type(e).__name__, str(e)[:100])})
    return {"fail": fails, "evals": ntry, "outcome": [ck, ntry]}


# ----------------------------------------------------------------------------- memory safety
def run_procinds(case):
    from ciderpress.dft import plans as P

    from mc import fixtures as F

    st = F.feature_settings(case["fam"], normalize=False).nldf_settings
    cls = P.NLDFGaussianPlan if case["plan"] == "gaussian" else P.NLDFSplinePlan
    order, i, proc = case["order"], case["i"], list(case["proc"])
    full = cls(st, 1, 0.1, 3.0, 7, coef_order=order, alpha_formula="etb")
    loc = cls(st, 1, 0.1, 3.0, 7, coef_order=order, alpha_formula="etb", proc_inds=proc)
    n = 9
    rho = np.exp(np.linspace(np.log(1e-3), np.log(0.8), n))
    sigma = (0.3 * rho ** (4.0 / 3)) ** 2 * 1.3
    tau = sigma / (8 * rho) + 2.871 * rho ** (5.0 / 3) * 0.7
    ck = "plan=%s;order=%s;fam=%s;i=%d;proc=%s" % (case["plan"], order, case["fam"], i, ",".join(map(str, proc)))
    fails = []
    out = []
    res = []
    for pl in (full, loc):
        a, _ = pl.get_interpolation_arguments((rho.copy(), sigma.copy(), tau.copy()), i=i)
        # guard pages of NaN around the outputs: a routine told the wrong ladder size writes into them
        nal = pl.local_nalpha
        shape = (n, nal) if order == "gq" else (nal, n)
        vb = np.full(n * nal + 64, np.nan)
        db = np.full(n * nal + 64, np.nan)
        p_, dp_ = pl.get_interpolation_coefficients(np.ascontiguousarray(a), i=i, vbuf=vb, dbuf=db)
        if p_.shape != shape or dp_.shape != shape:
            fails.append({"key": "procinds-shape;" + ck, "msg": "coefficients have shape %s, ladder subset has %d exponents" % (p_.shape, nal)})
            return {"fail": fails, "evals": 2, "outcome": "shape"}
        if not (np.all(np.isnan(vb[n * nal:])) and np.all(np.isnan(db[n * nal:]))):
            fails.append({"key": "procinds-writes-past-buffer;" + ck, "msg": "get_interpolation_coefficients wrote beyond the %d x %d output it was given" % shape})
        res.append((np.array(p_), np.array(dp_)))
    (pf, dpf), (pl_, dpl) = res
    subf, subd = (pf[:, proc], dpf[:, proc]) if order == "gq" else (pf[proc], dpf[proc])
    d = max(np.abs(subf - pl_).max(), np.abs(subd - dpl).max()) if subf.shape == pl_.shape else np.inf
    if not d <= 1e-13 * (1 + np.abs(pf).max()):
        fails.append({"key": "procinds-not-subset;" + ck, "msg": "coefficients of the plan restricted to exponents %s differ from those columns of the full plan by %.3e" % (proc, d)})
    return {"fail": fails, "evals": 2, "outcome": [ck, float("%.9e" % np.abs(pl_).sum())]}


def run_asan(case):
    from mc.boot import VERIF, det_env
    from mc.build import build

    d = build("asan")
    libasan = subprocess.run(["gcc", "-print-file-name=libasan.so"], stdout=subprocess.PIPE, text=True).stdout.strip()
    # libstdc++ is preloaded with the sanitizer runtime: scipy's hyp1f1 (used to tabulate the 1F1 spline of the
    # fractional-Laplacian code) throws and catches a C++ exception internally, and ASan's __cxa_throw interceptor aborts
    # ("CHECK failed ... real___cxa_throw") when the C++ runtime was not loaded before it
    libstdcxx = subprocess.run(["gcc", "-print-file-name=libstdc++.so"], stdout=subprocess.PIPE, text=True).stdout.strip()
    env = det_env()
    env.update({"LD_PRELOAD": libasan + " " + libstdcxx, "ASAN_OPTIONS": "detect_leaks=0:verify_asan_link_order=0:abort_on_error=0:exitcode=97:allocator_may_return_null=1",
                "OMP_NUM_THREADS": "1", "VERIF_REEXEC": "1"})
    fails = []
    start = 0
    ran = 0
    total = None
    for attempt in range(6):
        r = subprocess.run(["/venv/bin/python", os.path.join(VERIF, "mc", "c18_asan.py"), case["tier"], str(case["seed"]), str(case["team"]),
                            str(case["part"]), str(case["nparts"]), str(start)], stdout=subprocess.PIPE, stderr=subprocess.PIPE, text=True, env=env, cwd=VERIF)
        done = [l for l in r.stdout.splitlines() if l.startswith("C18-DONE ")]
        marks = [l for l in r.stdout.splitlines() if l.startswith("C18-ENTRY ")]
        if done:
            ran += int(done[-1].split()[1])
            total = int(done[-1].split()[2])
            break
        # the process died: attribute to the last entry announced
        last = marks[-1][len("C18-ENTRY "):] if marks else "?"
        idx = int(last.split(" ", 1)[0]) if marks else start
        what = last.split(" ", 1)[1] if marks else "?"
        summ = [l for l in r.stderr.splitlines() if "SUMMARY: AddressSanitizer" in l or "ERROR: AddressSanitizer" in l]
        if summ:
            kind = summ[0].split("AddressSanitizer:")[1].split()[0] if "AddressSanitizer:" in summ[0] else "error"
            where = [l.strip() for l in r.stderr.splitlines() if l.strip().startswith("#") and ("libmcider" in l or "libfft_wrapper" in l or "libnumint" in l)]
            ent = json.loads(what) if what.startswith("{") else {"entry": what}
            fails.append({"key": "asan;%s;entry=%s;op=%s" % (kind, ent.get("entry"), ent.get("op", ent.get("kind", ent.get("fam", "-")))),
                          "msg": "AddressSanitizer %s while running %s (team %d): %s" % (kind, what, case["team"], where[0] if where else summ[0])})
        elif "AddressSanitizer: CHECK failed" in r.stderr:
            # the sanitizer runtime itself gave up (an internal assertion of the tool, not a report about the library)
            fails.append({"key": "harness-sanitizer-internal-error", "msg": "AddressSanitizer aborted on an internal check while running %s: %s" % (
                what[:120], [l for l in r.stderr.splitlines() if "CHECK failed" in l][0][:200])})
        else:
            fails.append({"key": "asan-run-died;entry=%s" % what[:80], "msg": "instrumented run died with rc=%s without an ASan report: %s" % (r.returncode, r.stderr[-300:])})
        ran += len(marks)
        start = idx + 1
    return {"fail": fails, "evals": ran, "outcome": ["asan", case["team"], case["part"], ran], "info": {"entries_run": ran, "entries_total": total}}


def run_case(case):
    k = case["kind"]
    if k == "valid":
        return run_valid(case)
    if k == "count":
        return run_count(case)
    if k == "invalid":
        return run_invalid(case)
    if k == "dots":
        return run_dots(case)
    if k == "procinds":
        return run_procinds(case)
    return run_asan(case)


def finish(tier, seed, cases, results):
    n_asan = sum((r.get("info") or {}).get("entries_run", 0) for r in results)
    n_inv = sum(int(r.get("evals", 0)) for c, r in zip(cases, results) if c["kind"] == "invalid")
    return {"coverage": {"asan_instrumented_executions": n_asan, "invalid_inputs_tried": n_inv}}
