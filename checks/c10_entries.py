"""Harness bodies for C10: every Python-reachable OpenMP entry point of the C back end,
closed with small drivers.  build(entry) returns a zero-argument callable that
(re)creates its inputs deterministically and returns the list of output arrays."""
import itertools

import numpy as np

SIZES = [1, 2, 3, 5, 8]


def _vec(n, seed, salt=0):
    return np.random.RandomState(1234 + 17 * seed + salt).randn(n)


def _gen(p):
    from checks import c05

    return c05.make_gen(p.get("layout", "He-5x14-l2"), fam=p.get("fam", "VIJ"), plan=p.get("plan", "gaussian"),
                        interp=p.get("interp", "onsite_direct"), nspin=p.get("nspin", 1))


def _c05_op(p):
    from checks import c05

    mol, grids, gen = _gen(p)
    op = p["op"]
    if op == "angc":
        A, B, nx, ny, st = c05.op_angc(gen, p.get("offset", 0), p.get("extra", 0))
    elif op == "rad2orb":
        A, B, nx, ny, st = c05.op_rad2orb(gen, p.get("offset", 0), p.get("extra", 0), p.get("which", "inp"))
    elif op == "ccl":
        A, B, nx, ny, st = c05.op_ccl(gen)
    elif op == "interp":
        A, B, nx, ny, st = c05.op_interp(gen)
    elif op == "spline":
        A, B, nx, ny, st = c05.op_spline(gen)
    elif op == "interp_only":
        A, B, nx, ny, st = c05.op_interp_only(gen)
    elif op == "composite":
        A, B, nx, ny, st = c05.op_composite(gen)
    else:
        raise ValueError(op)
    keep = (mol, grids, gen)
    x = _vec(nx, p.get("seed", 0), 1)
    y = _vec(ny, p.get("seed", 0), 2)
    if p.get("dir", "fwd") == "fwd":
        return lambda: [A(x)], keep
    return lambda: [B(y)], keep


def _rho(mol, grids, level, seed, which="D1", scale=1.0):
    from checks import c07

    from mc import fixtures as F

    dm = F.make_dm(mol, which, seed)
    return scale * c07._rho_on_grid(mol, grids, dm, level)


def build(p):
    """p: dict with 'entry' and parameters. Returns (fn, keepalive)."""
    e = p["entry"]
    seed = p.get("seed", 0)
    if e == "c05":
        return _c05_op(p)
    if e == "gen_build":
        # generator construction (integrals, projection coefficients, spline maps, coordinate
        # indexing) followed by one forward convolution, all under the explored schedule
        from checks import c05

        def fn():
            mol, grids, gen = _gen(p)
            A, B, nx, ny, st = c05.op_composite(gen)
            return [A(_vec(nx, seed, 3))]

        return fn, None
    if e == "coefs":
        mol, grids, gen = _gen(p)
        plan = gen.plan
        n = p["n"]
        amax = float(plan.alphas.max()) * 0.5
        amin = float(plan.alphas.min()) * 2.0
        arg = np.exp(np.linspace(np.log(amin), np.log(amax), n))
        i = p.get("i", -1)

        spline = hasattr(plan, "get_a2q_fast")

        def fn():
            if spline:  # spline plans interpolate in the (clipped) ladder index, not in the exponent
                di, ddi = plan.get_a2q_fast(arg.copy())
                a, b = plan.get_interpolation_coefficients(di, i=i)
                return [np.array(a), np.array(b), np.array(di), np.array(ddi)]
            a, b = plan.get_interpolation_coefficients(arg.copy(), i=i)
            return [np.array(a), np.array(b)]

        return fn, (mol, grids, gen)
    if e == "plan_coefs":
        # plans built directly: both coefficient orders, both ladders, smooth exponent cutoff
        from ciderpress.dft import plans as P

        from mc import fixtures as F

        st = F.feature_settings(p.get("fam", "VIJ"), normalize=False).nldf_settings
        cls = P.NLDFGaussianPlan if p.get("plan", "gaussian") == "gaussian" else P.NLDFSplinePlan
        kwp = {}
        if p.get("dense"):
            kwp["spline_size"] = 19  # denser than the 7-point exponent ladder
        if p.get("wide"):
            kwp["raise_large_expnt_error"] = False  # documented option: exponents above the ladder are accepted
        if cls is P.NLDFGaussianPlan:
            kwp.pop("spline_size", None)
        if p.get("proc"):
            kwp["proc_inds"] = list(p["proc"])  # documented option: this process handles a subset of the ladder
        plan = cls(st, p.get("nspin", 1), 0.1, 3.0, 7, coef_order=p.get("order", "gq"),
                   alpha_formula=p.get("formula", "etb"), use_smooth_expnt_cutoff=p.get("smooth", False), **kwp)
        n = p["n"]
        rng = np.random.RandomState(77 + seed)
        # "wide": densities whose exponents run from far below the first to far above the last ladder point
        rho = np.exp(np.linspace(np.log(1e-3), np.log(3e4 if p.get("wide") else 0.8), n))
        sigma = (0.3 * rho ** (4.0 / 3)) ** 2 * (1 + rng.rand(n))
        tau = sigma / (8 * rho) + 2.871 * rho ** (5.0 / 3) * (0.3 + rng.rand(n))
        i = p.get("i", -1)

        def fn():
            rt = (rho.copy(), sigma.copy(), tau.copy()) if st.sl_level == "MGGA" else (rho.copy(), sigma.copy())
            arg, darg = plan.get_interpolation_arguments(rt, i=i)
            a, b = plan.get_interpolation_coefficients(np.ascontiguousarray(arg), i=i)
            return [np.array(arg), np.array(a), np.array(b)] + [np.array(d) for d in darg]

        return fn, plan
    if e == "sdmx_slow":
        from ciderpress.pyscf import sdmx_slow

        from mc import fixtures as F

        mol = F.make_mol(p.get("mol", "HF"))
        st = F.feature_settings(p.get("fam", "SDMXG1"), normalize=False)
        gen = sdmx_slow.PySCFSDMXInitializer(st.sdmx_settings, lowmem=p.get("lowmem", False)).initialize_sdmx_generator(mol, 1)
        rng = np.random.RandomState(12 + seed)
        n = p["n"]
        coords = np.ascontiguousarray(mol.atom_coords()[rng.randint(0, mol.natm, n)] + rng.randn(n, 3) * 0.9)
        dm = F.make_dm(mol, "D1", seed)
        nao = mol.nao

        def fn():
            f = gen.get_features(dm, mol, coords)
            vm = np.zeros((nao, nao))
            gen.get_vxc_(vm, np.cos(np.arange(f.size)).reshape(f.shape))
            return [np.array(f), vm]

        return fn, (mol, gen)
    if e == "nldf_feat":
        mol, grids, gen = _gen(p)
        level = gen.plan.nldf_settings.sl_level
        nspin = p.get("nspin", 1)
        # density scaled down so that every exponent stays inside the (deliberately short) ladder
        rho = _rho(mol, grids, level, seed, scale=0.004 / nspin)
        w = grids.weights

        def fn():
            out = []
            for s in range(nspin):
                f = gen.get_features(rho.copy(), spin=s)
                vf = np.cos(np.arange(f.size)).reshape(f.shape) * w * rho[0]
                v = gen.get_potential(vf, spin=s)
                out += [np.array(f), np.array(v)]
            return out

        return fn, (mol, grids, gen)
    if e == "grad":
        mol, grids, gen = _gen(p)
        it = gen.interpolator
        nao = it.atco.nao
        f_uq = _vec(nao * it.num_in, seed, 4).reshape(nao, it.num_in)
        ngpp = it.project_orb2grid(np.zeros((nao, it.num_in))).shape[0]
        f_gq = _vec(ngpp * it.num_out, seed, 5).reshape(ngpp, it.num_out)

        def fn():
            return [np.array(it.project_orb2grid_grad(f_uq.copy(), f_gq.copy()))]

        return fn, (mol, grids, gen)
    if e == "grad_terms":
        # the hand-partitioned per-atom reduction behind the analytic gradient, driven through the real Python wrapper
        # with a stand-in interpolator: the chunk arithmetic depends on (number of grid points, team size) only, and the
        # molecule fixtures reach just three point counts
        import types

        from ciderpress.dft.lcao_interpolation import LCAOInterpolator

        n, natm = p["n"], p.get("natm", 3)
        rs = np.random.RandomState(11 + seed + 7 * n)
        iatom = np.ascontiguousarray(rs.randint(0, natm, size=n).astype(np.int32))
        iatom[-1] = natm - 1  # the last point belongs to an atom that would otherwise be rare for tiny n
        if n >= 2:
            iatom[0] = 0  # at least two owners, so that no output is a pure cancellation residue
        f_g = _vec(n, seed, 6)
        stub = types.SimpleNamespace(grids_indexer=types.SimpleNamespace(iatom_list=iatom), atco=types.SimpleNamespace(natm=natm))

        def fn():
            excsum = np.zeros((natm, 3))
            for a in range(natm):
                for v in range(3):
                    LCAOInterpolator._contract_grad_terms(stub, excsum, (1.0 + a + 0.5 * v) * f_g, a, v)
            # the own-atom term is subtracted, so excsum sums to zero per direction: keep the per-atom partial sums too
            part = np.zeros((natm, 3))
            LCAOInterpolator._contract_grad_terms(stub, part, f_g, natm - 1, 0)
            # + 1: when every addend of an entry cancels (own-atom sum minus total) the residue is rounding only and must
            # be judged against O(1), not against itself
            return [excsum, part + 1.0]

        return fn, (stub, iatom, f_g)
    if e == "se_kernel":
        from checks import c04

        from mc import fixtures as F

        st = c04._settings()
        fl = F.feature_list_for(st, seed)
        ev = F.make_evaluator(p["kind"], fl, seed, salt=3)
        n = p["n"]
        lo, hi = F._bounds(fl)
        X1 = lo + (hi - lo) * (0.1 + 0.8 * np.random.RandomState(5 + seed).rand(n, fl.nfeat))
        if p["kind"] == "SpinRBF":
            X1 = np.stack([X1, lo + 0.9 * (X1[::-1] - lo)])

        def fn():
            r, d = ev(X1.copy())
            return [np.array(r), np.array(d)]

        return fn, ev
    if e == "sdmx":
        from ciderpress.pyscf.sdmx import PySCFSDMXInitializer

        from mc import fixtures as F

        mol = F.make_mol(p.get("mol", "HF"))
        st = F.feature_settings(p.get("fam", "SDMXG1"), normalize=False)
        nspin = p.get("nspin", 1)
        gen = PySCFSDMXInitializer(st.sdmx_settings, lowmem=p.get("lowmem", False)).initialize_sdmx_generator(mol, nspin)
        rng = np.random.RandomState(12 + seed)
        n = p["n"]
        coords = np.ascontiguousarray(mol.atom_coords()[rng.randint(0, mol.natm, n)] + rng.randn(n, 3) * 0.9)
        dm = F.make_dm(mol, "D1", seed) / nspin
        nao = mol.nao

        def fn():
            f = gen.get_features(dm, mol, coords)
            vm = np.zeros((nao, nao))
            gen.get_vxc_(vm, np.cos(np.arange(f.size)).reshape(f.shape))
            return [np.array(f), vm]

        return fn, (mol, gen)
    if e == "flapl":
        # fractional-Laplacian orbital operators: contraction callbacks of this package executed inside PySCF's own
        # parallel grid loop (dynamic schedule over atom x 56-point block items): several atoms, several blocks
        from ciderpress.pyscf.descriptors import _fl_desc_getter
        from ciderpress.pyscf.frac_lapl import eval_kao

        from mc import fixtures as F

        mol = F.make_mol(p.get("mol", "H2O"))
        st = F.nlof_settings(p.get("cls", "FLd"))
        rng = np.random.RandomState(21 + seed)
        n = p["n"]
        coords = np.ascontiguousarray(mol.atom_coords()[rng.randint(0, mol.natm, n)] + rng.randn(n, 3) * 0.9)
        dm = F.make_dm(mol, "D1", seed)

        class _G:
            pass

        g = _G()
        g.mol, g.coords, g.weights, g.non0tab, g.cutoff = mol, coords, np.ones(n), None, 0

        def fn():
            kao = eval_kao(st.slist, mol, coords, deriv=0, n1=st.nd1)
            f = _fl_desc_getter(mol, g, dm, st)
            return [np.array(kao), np.array(f)]

        return fn, (mol, st)
    if e == "fft":
        from ciderpress.lib.fft_plan import FFTWrapper

        dims = tuple(p["dims"])
        w = FFTWrapper(dims, ntransform=p.get("nt", 1), fwd=p.get("fwd", True), r2c=p.get("r2c", False),
                       inplace=p.get("inplace", False), batch_first=p.get("batch_first", True))
        n = int(np.prod(w.input_shape))
        if p.get("r2c", False) and p.get("fwd", True):
            x = _vec(n, seed, 6).reshape(w.input_shape).astype(np.complex128 if False else np.float64)
        else:
            x = (_vec(n, seed, 6) + 1j * _vec(n, seed, 7)).reshape(w.input_shape)
        if p.get("r2c", False) and not p.get("fwd", True):
            # a valid half spectrum: image of a real vector
            real = _vec(int(np.prod(dims)) * p.get("nt", 1), seed, 8)
            if p.get("batch_first", True):
                x = np.fft.rfftn(real.reshape((p.get("nt", 1),) + dims), axes=tuple(range(1, 1 + len(dims))))
            else:
                x = np.fft.rfftn(real.reshape(dims + (p.get("nt", 1),)), axes=tuple(range(len(dims))))
            x = np.ascontiguousarray(x)

        def fn():
            return [np.array(w.call(np.ascontiguousarray(x)))]

        return fn, w
    if e == "e2e":
        from checks import c01

        case = dict(c01.SPACE.base(), seed=seed)
        case.update(p.get("cfg", {}))
        mol, ks, dm = c01.build(case)
        from mc import fixtures as F

        def fn():
            n, exc, v = F.nr(ks, dm)
            return [np.atleast_1d(np.asarray(n, float)), np.atleast_1d(np.asarray(exc, float)), np.asarray(v)]

        return fn, (mol, ks)
    raise ValueError(e)


def entry_table(tier):
    """The list of harness bodies (without team/bound)."""
    T = []
    quick = tier == "quick"
    lays = ["He-5x14-l2", "HF-4x14-l2", "H2O-3x14-l2"]
    # c05 operators, both directions
    for lay in lays:
        for op in ("angc", "rad2orb"):
            for d in ("fwd", "bwd"):
                T.append({"entry": "c05", "op": op, "dir": d, "layout": lay, "offset": 1, "extra": 1})
    for lay in ["He-6x26-l3", "HF-8x50-l3-pruned", "He-4x14-l1"]:
        for d in ("fwd", "bwd"):
            T.append({"entry": "c05", "op": "angc", "dir": d, "layout": lay})
            T.append({"entry": "c05", "op": "rad2orb", "dir": d, "layout": lay, "which": "out"})
    for lay in lays:
        for fam in ("VJ", "VI", "VIJ", "VK", "VIJ2"):
            for d in ("fwd", "bwd"):
                T.append({"entry": "c05", "op": "ccl", "dir": d, "layout": lay, "fam": fam})
    for lay in lays[:2] if quick else lays:
        for fam in ("VJ", "VIJ", "VK", "VI"):
            for interp in ("onsite_direct", "onsite_spline", "train_gen"):
                for op in ("interp", "spline", "interp_only"):
                    for d in ("fwd", "bwd"):
                        if quick and fam in ("VJ", "VI") and op != "interp":
                            continue
                        T.append({"entry": "c05", "op": op, "dir": d, "layout": lay, "fam": fam, "interp": interp})
    for lay in lays[:2]:
        for fam in ("VJ", "VIJ", "VK", "VI"):
            for plan in ("gaussian", "spline"):
                for d in ("fwd", "bwd"):
                    T.append({"entry": "c05", "op": "composite", "dir": d, "layout": lay, "fam": fam, "plan": plan})
    # generator construction
    for lay in lays:
        for fam in ("VJ", "VIJ", "VK"):
            for interp in ("onsite_direct", "train_gen"):
                T.append({"entry": "gen_build", "layout": lay, "fam": fam, "interp": interp})
    # interpolation coefficients
    for plan in ("gaussian", "spline"):
        for fam in ("VJ", "VIJ", "VK"):
            for i in (-1, 0, 1):
                for n in SIZES:
                    T.append({"entry": "coefs", "plan": plan, "fam": fam, "i": i, "n": n})
    for plan in ("gaussian", "spline"):
        for order in ("gq", "qg"):
            for formula in ("etb", "zexp"):
                for fam in ("VJ", "VK", "VIJ"):
                    for i in (-1, 0):
                        for n in (3, 8):
                            T.append({"entry": "plan_coefs", "plan": plan, "order": order, "formula": formula, "fam": fam, "i": i, "n": n})
    T.append({"entry": "plan_coefs", "plan": "gaussian", "order": "gq", "formula": "etb", "fam": "VIJ", "i": -1, "n": 5, "smooth": True})
    # dense spline tables and accepted out-of-ladder exponents (guard switched off)
    for plan, order, dense in (("spline", "gq", True), ("spline", "qg", True), ("spline", "gq", False), ("gaussian", "gq", False), ("gaussian", "qg", False)):
        for i in (-1, 0):
            T.append({"entry": "plan_coefs", "plan": plan, "order": order, "formula": "etb", "fam": "VIJ", "i": i, "n": 9, "dense": dense, "wide": True})
    # a process-local subset of the exponent ladder (proc_inds), every plan type / order, incl. the version-k branch
    for plan, order in itertools.product(("gaussian", "spline"), ("gq", "qg")):
        for fam, i in (("VK", -1), ("VK", 0), ("VIJ", -1), ("VIJ", 0)):
            T.append({"entry": "plan_coefs", "plan": plan, "order": order, "formula": "etb", "fam": fam, "i": i, "n": 9, "proc": [1, 3, 4]})
    T.append({"entry": "plan_coefs", "plan": "spline", "order": "gq", "formula": "zexp", "fam": "VJ", "i": -1, "n": 9, "dense": True})
    T.append({"entry": "plan_coefs", "plan": "spline", "order": "qg", "formula": "zexp", "fam": "VJ", "i": 1, "n": 5, "smooth": True, "nspin": 2})
    for mol in ("HF", "H2O"):
        for fam in ("SDMX", "SDMXG1", "SDMXFull"):
            for lowmem in (False, True):
                if lowmem and fam == "SDMX":
                    continue  # the slow generator's lowmem path cannot run without l=1 terms (indexing error, not a threading matter)
                T.append({"entry": "sdmx_slow", "mol": mol, "fam": fam, "n": 5, "lowmem": lowmem})
    # features + potential through the generator
    for lay in lays[:2]:
        for fam in ("VJ", "VI", "VIJ", "VK", "VIJ2"):
            for plan in ("gaussian", "spline"):
                for nspin in (1, 2):
                    if quick and nspin == 2 and fam not in ("VIJ",):
                        continue
                    T.append({"entry": "nldf_feat", "layout": lay, "fam": fam, "plan": plan, "nspin": nspin})
    T.append({"entry": "nldf_feat", "layout": "HF-8x50-l3-pruned", "fam": "VIJ", "plan": "gaussian", "nspin": 1})
    # gradient helper kernels
    for lay in lays[:2]:
        for fam in ("VJ", "VIJ", "VK"):
            for interp in ("onsite_direct", "onsite_spline"):  # grad mode exists only for the direct interpolator
                T.append({"entry": "grad", "layout": lay, "fam": fam, "interp": interp})
    # hand-partitioned reduction of the gradient terms: point counts below, at and above the team sizes, multiples of 8
    # with and without remainder (quick: a sample of residues; thorough: every count up to 140)
    for n in ([1, 2, 3, 5, 8, 17, 33, 64, 67, 130] if quick else list(range(1, 141)) + [257, 1537]):
        T.append({"entry": "grad_terms", "n": n, "natm": 3})
    # model kernels
    for kind in ("RBF", "AntisymRBF", "SpinRBF"):
        for n in SIZES + [17]:
            T.append({"entry": "se_kernel", "kind": kind, "n": n})
    # SDMX
    for mol in ("HF", "H2O"):
        for fam in ("SDMX", "SDMX1", "SDMXG", "SDMXG1", "SDMXFull", "SADM"):
            for n in ([1, 3, 8] if quick else SIZES + [130]):
                T.append({"entry": "sdmx", "mol": mol, "fam": fam, "n": n})
    T.append({"entry": "sdmx", "mol": "HF", "fam": "SDMXG1", "n": 130})
    for cls, n in (("FLd", 400), ("FL", 400), ("FLd2", 130), ("FL0", 57)):
        T.append({"entry": "flapl", "mol": "H2O", "cls": cls, "n": n})
    T.append({"entry": "sdmx", "mol": "HF", "fam": "SDMXG1", "n": 5, "nspin": 2})
    # FFT copy loops
    for dims in ([(3,), (4, 5), (2, 3, 4), (2, 3, 5)]):
        for r2c in (False, True):
            for fwd in (True, False):
                for inplace in (False, True):
                    for nt, bf in ((1, True), (3, True), (3, False)):
                        T.append({"entry": "fft", "dims": list(dims), "r2c": r2c, "fwd": fwd, "inplace": inplace, "nt": nt, "batch_first": bf})
    return T


def e2e_table(tier):
    fams = ["VIJ", "SL", "VJ", "VI", "VK", "SDMX", "VIJ+SDMX1", "SDMXG1"]
    T = []
    for fam in fams:
        for nspin in (1, 2):
            T.append({"entry": "e2e", "cfg": {"fam": fam, "nspin": nspin}})
    T.append({"entry": "e2e", "cfg": {"fam": "VIJ", "plan": "spline"}})
    T.append({"entry": "e2e", "cfg": {"fam": "VIJ", "interp": "train_gen"}})
    T.append({"entry": "e2e", "cfg": {"fam": "VIJ", "interp": "onsite_spline", "mol": "H2O"}})
    T.append({"entry": "e2e", "cfg": {"fam": "VK", "mode": "NPOL", "nspin": 2}})
    return T
