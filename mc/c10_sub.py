"""Sub-process bodies of C10 that need another library variant / a preloaded runtime:
  libgomp <tier> <seed> <reps>    plain build under the real libgomp (OMP_NUM_THREADS from env)
  tsan    <tier> <seed> <team>    tsan build, vgomp free running, real libtsan preloaded
  race    <tier> <seed> <json>    tsan build WITHOUT libtsan: candidate sites promoted to scheduling points
"""
import json
import os
import sys

VERIF = os.path.dirname(os.path.dirname(os.path.abspath(__file__)))
sys.path.insert(0, VERIF)


def _fingerprint(arrs):
    import numpy as np

    out = []
    for a in arrs:
        a = np.asarray(a, dtype=float).ravel()
        k = np.arange(a.size)
        out.append([float(a.sum()), float(np.abs(a).sum()), float(np.dot(a, np.cos(1.3 * k))), float(np.dot(a, np.sin(0.7 * k + 0.1)))])
    return out


def _entries(tier, seed, reduced):
    from checks import c10_entries as E

    tab = E.entry_table("quick") + E.e2e_table("quick")
    if reduced:
        # two bodies per (entry, op, dir, fam, plan, interp, kind, r2c...) class: the first (smallest, single-atom)
        # AND the last (largest, several atoms) layout - work splits over atoms only exist in the latter
        first, last = {}, {}
        for idx, p in enumerate(tab):
            sig = tuple(sorted((k, str(v)) for k, v in p.items() if k not in ("layout", "n", "mol", "dims", "offset", "extra", "which", "i", "nt", "batch_first", "inplace")))
            first.setdefault(sig, idx)
            last[sig] = idx
        # ... and every body on a pruned grid (shells of different angular sizes inside one call: a per-shell quantity
        # that is wrongly shared between threads only matters there)
        pruned = [i for i, p in enumerate(tab) if "pruned" in str(p.get("layout", ""))]
        keep = sorted(set(first.values()) | set(last.values()) | set(pruned))
        tab = [tab[i] for i in keep]
    return [dict(p, seed=seed) for p in tab]


def main():
    mode, tier, seed = sys.argv[1], sys.argv[2], int(sys.argv[3])
    from mc.boot import use_variant

    if mode == "libgomp":
        use_variant("plain")
        from checks import c10_entries as E

        reps = int(sys.argv[4])
        res = {}
        tab = _entries(tier, seed, reduced=(tier == "quick"))
        for p in tab:
            name = ";".join("%s=%s" % (k, p[k]) for k in sorted(p) if k != "seed")
            fn, keep = E.build(p)
            res[name] = [_fingerprint(fn()) for _ in range(reps)]
        print(json.dumps(res))
        return 0
    if mode == "tsan":
        d = use_variant("tsan")
        from checks import c10_entries as E

        from mc import vgomp

        team = int(sys.argv[4])
        tab = _entries(tier, seed, reduced=True)
        n = 0
        for p in tab:
            sys.stderr.write("C10SUB-ENTRY %s\n" % json.dumps(p, sort_keys=True))
            sys.stderr.flush()
            vgomp.config(team, 0, 0)  # free running: real concurrency, all synchronisation visible to TSan
            try:
                fn, keep = E.build(p)
                fn()
                n += 1
            finally:
                vgomp.config(1, 1, 0)
        print("C10SUB-RAN %d" % n)
        print("C10SUB-DONE")
        return 0
    if mode == "race":
        d = use_variant("tsan")
        import numpy as np

        from checks import c10, c10_entries as E

        from mc import racepcs, vgomp

        cand = json.loads(sys.argv[4])
        import ciderpress.dft.lcao_convolutions  # noqa: F401  (loads libmcider so that its base address is known)
        import ciderpress.lib.fft_plan  # noqa: F401

        pcs = racepcs.pcs_for_sites(d, cand["sites"])
        vgomp.set_race_pcs(pcs)
        # Which harness bodies can observe the racing code?  The report is attributed to the body
        # during which TSan first saw the race, whose OUTPUT need not depend on the racing code
        # (e.g. a race in the set-up of a convolution object seen while a radial transform was the
        # body).  So the candidate is explored in the attributed body and in the first bodies of a
        # fixed priority list (whole-pipeline bodies first) that actually execute the racing accesses.
        attributed = json.loads(cand["entry"]) if isinstance(cand["entry"], str) else cand["entry"]
        # bodies on a pruned two-atom grid first: shells of different sizes and several atoms inside one call are what
        # makes a wrongly shared per-shell / per-atom quantity change the result
        prio = [{"entry": "c05", "op": "angc", "dir": "fwd", "layout": "HF-8x50-l3-pruned"},
                {"entry": "c05", "op": "angc", "dir": "bwd", "layout": "HF-8x50-l3-pruned"},
                {"entry": "c05", "op": "rad2orb", "dir": "fwd", "layout": "HF-8x50-l3-pruned", "which": "out"},
                {"entry": "nldf_feat", "layout": "HF-8x50-l3-pruned", "fam": "VIJ", "plan": "gaussian", "nspin": 1},
                {"entry": "grad", "layout": "HF-4x14-l2", "fam": "VIJ", "interp": "onsite_direct"}]
        for fam in ("VIJ", "VK", "VJ", "VI"):
            for interp in ("onsite_direct", "train_gen"):
                prio.append({"entry": "gen_build", "layout": "He-5x14-l2", "fam": fam, "interp": interp})
        for fam in ("VIJ", "VK"):
            for plan in ("gaussian", "spline"):
                prio.append({"entry": "nldf_feat", "layout": "He-5x14-l2", "fam": fam, "plan": plan, "nspin": 2})
        prio += [{"entry": "grad", "layout": "He-5x14-l2", "fam": "VIJ", "interp": "onsite_direct"},
                 {"entry": "sdmx", "mol": "HF", "fam": "SDMXG1", "n": 5}, {"entry": "sdmx", "mol": "HF", "fam": "SDMXFull", "n": 3},
                 {"entry": "sdmx_slow", "mol": "HF", "fam": "SDMXG1", "n": 5},
                 {"entry": "se_kernel", "kind": "SpinRBF", "n": 5}, {"entry": "se_kernel", "kind": "AntisymRBF", "n": 5},
                 {"entry": "se_kernel", "kind": "RBF", "n": 5},
                 {"entry": "plan_coefs", "plan": "spline", "order": "qg", "formula": "zexp", "fam": "VJ", "i": 1, "n": 5, "smooth": True},
                 {"entry": "plan_coefs", "plan": "gaussian", "order": "gq", "formula": "etb", "fam": "VK", "i": 0, "n": 5},
                 {"entry": "fft", "dims": [2, 3, 4], "r2c": True, "fwd": True, "inplace": True, "nt": 3, "batch_first": False},
                 {"entry": "fft", "dims": [2, 3, 5], "r2c": True, "fwd": False, "inplace": True, "nt": 3, "batch_first": True}]
        bodies = []
        for q in prio + [attributed]:
            q = dict(q, seed=seed)
            if any(json.dumps(q, sort_keys=True) == json.dumps(b, sort_keys=True) for b in bodies):
                continue

            def fn(q=q):  # construction of the objects is part of the explored body (races may sit in set-up code)
                f, keep = E.build(q)
                return f()

            try:
                probe = vgomp.execute(fn, (), team=2)
            except Exception:
                continue
            if probe.race_hits > 0:
                bodies.append(q)
            if len(bodies) >= (4 if tier == "quick" else 8):
                break
        total = {"executions": 0, "race_hits": 0, "verdict": "schedule-independent within bound", "npcs": len(pcs),
                 "bodies": [json.dumps(b, sort_keys=True) for b in bodies]}
        bound = 1 if tier == "quick" else 2
        budget = (60.0 if tier == "quick" else 1500.0) / max(1, 2 * len(bodies))
        for q in bodies:
            def fn(q=q):
                f, keep = E.build(q)
                return f()

            ref = vgomp.execute(fn, (), team=1)
            for team in (2, 3):
                box = [0]
                probe = vgomp.execute(fn, (), team=team)
                total["race_hits"] += probe.race_hits
                check = c10._checker(ref, q, team, box)
                # deviations only AT the promoted racing accesses (kind 'R'): the interleavings at
                # synchronisation granularity are the subject of the ordinary exploration
                stats = vgomp.explore(fn, team, bound, check, kinds="R", max_exec=4000 if tier == "quick" else 200000,
                                      time_budget=budget)
                total["executions"] += stats["executions"]
                bad = [f for f in stats["failures"] if f["kind"] == "schedule-dependent"]
                other = [f for f in stats["failures"] if f["kind"] != "schedule-dependent"]
                if bad or other:
                    f0 = (bad or other)[0]
                    total.update(verdict="schedule-dependent", prefix=f0["prefix"], team=team, worst=f0.get("worst", 0.0),
                                 body=json.dumps(q, sort_keys=True), note=f0["msg"])
                    break
                if stats["capped"]:
                    total["capped"] = True
            if total["verdict"] == "schedule-dependent":
                break
        print("C10SUB-RACE " + json.dumps(total))
        return 0
    raise SystemExit("unknown mode")


if __name__ == "__main__":
    sys.exit(main())
