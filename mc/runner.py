"""Generic bounded-exhaustive explorer + reporting (DESIGN.md sections 3.2-3.7).

A check module (checks/cNN.py) provides

    ID, TITLE, LEVEL_RULE (str), ASSUMPTIONS (list[str])
    VARIANT               build variant its workers load ("plain", "sched", ... or None)
    initial_cases(tier, seed) -> list[case]      JSON-serialisable dicts
    run_case(case) -> {"fail": [ {key, msg, ...} ], "outcome": hashable/JSON,
                       "state": canonical key (str) or None, "children": [case...],
                       "edges": int, "evals": int, "undecided": int, "info": {...}}
    optional: worker_init(tier, seed), finish(tier, seed, cases, results) -> dict with
              extra "fail" list and "coverage" entries; case_label(case) -> str

The explorer runs the frontier level by level on a crash-tolerant worker pool.  A
case's children are explored only if its canonical state has not been seen (E2/E3);
for E1 every case is a state and there are no children.
"""
import fnmatch
import hashlib
import importlib
import json
import os
import subprocess
import sys
import time

from mc.boot import VERIF, det_env

EVID = os.path.join(VERIF, "evidence")
REPLAYS = os.path.join(VERIF, "replays")
if os.environ.get("VERIF_REPO", "/repo") != "/repo":
    # a run against another checkout (seeded-change confirmation) must not overwrite the evidence of /repo
    from mc.build import BUILD as _ALT

    EVID = os.path.join(_ALT, "evidence")
    REPLAYS = os.path.join(_ALT, "replays")
KNOWN = os.path.join(VERIF, "known_findings.json")


def jhash(obj):
    return hashlib.sha1(json.dumps(obj, sort_keys=True, default=str).encode()).hexdigest()[:16]


def load_known():
    if not os.path.exists(KNOWN):
        return {"findings": [], "fixed": []}
    with open(KNOWN) as fh:
        return json.load(fh)


def match_known(known, prop, key):
    for f in known.get("findings", []):
        if f.get("property") == prop and fnmatch.fnmatchcase(key, f.get("key", "")):
            return f
    return None


def default_label(case):
    s = json.dumps(case, sort_keys=True, default=str)
    return s if len(s) < 300 else s[:297] + "..."


def replay_main(mod, path, as_json):
    with open(path) as fh:
        rep = json.load(fh)
    case = rep["case"]
    if getattr(mod, "VARIANT", None):
        from mc.boot import use_variant

        use_variant(mod.VARIANT)
    if hasattr(mod, "worker_init"):
        mod.worker_init(rep.get("tier", "quick"), rep.get("seed", 0))
    try:
        res = mod.run_case(case) or {}
    except BaseException as e:
        res = {"fail": [{"key": "exception:%s" % type(e).__name__, "msg": str(e)[:300]}]}
    fails = res.get("fail", [])
    keys = sorted(set(f["key"] for f in fails))
    if as_json:
        print("REPLAY-JSON " + json.dumps({"keys": keys}))
    else:
        print("replay of %s: %d failure(s)" % (path, len(fails)))
        for f in fails:
            print("  ", f["key"], "-", f.get("msg", ""))
    want = rep.get("key")
    return 1 if (want in keys or (want is None and keys)) else 0


def confirm_in_fresh_process(cid, path, key):
    """Re-execute the failing case twice in fresh processes; identical observation
    (the same failure key) is required both times."""
    seen = []
    for _ in range(2):
        r = subprocess.run(
            [sys.executable, os.path.join(VERIF, "run_check.py"), cid, "--replay", path, "--json"],
            stdout=subprocess.PIPE, stderr=subprocess.STDOUT, text=True, env=det_env(), cwd=VERIF,
        )
        keys = None
        for line in r.stdout.splitlines():
            if line.startswith("REPLAY-JSON "):
                keys = json.loads(line[len("REPLAY-JSON "):])["keys"]
        if keys is None:
            # the replay process itself crashed: reproducible crash counts as the same observation
            keys = ["crash"] if r.returncode < 0 or r.returncode > 2 else []
        seen.append(keys)
    return all(key in k for k in seen), seen


def main(cid, tier, seed, replay=None, as_json=False, nproc=None, max_confirm=4):
    t_start = time.time()
    modname = "checks.%s" % cid.lower()
    mod = importlib.import_module(modname)
    if replay:
        return replay_main(mod, replay, as_json)

    os.makedirs(EVID, exist_ok=True)
    os.makedirs(REPLAYS, exist_ok=True)
    known = load_known()
    variant = getattr(mod, "VARIANT", None)
    if variant:
        from mc.build import build

        build(variant)
    if hasattr(mod, "prepare"):
        mod.prepare(tier, seed)  # builds etc. in the parent, before forking

    from mc.pool import Pool

    pool = Pool(modname, nproc=nproc or getattr(mod, "NPROC", None), init_args=(tier, seed))
    label = getattr(mod, "case_label", default_label)
    frontier = list(mod.initial_cases(tier, seed))
    all_cases, all_results = [], []
    seen_states = set()
    n_states = n_edges = n_evals = n_undecided = 0
    outcomes = set()
    depth = 0
    caps = []
    max_cases = getattr(mod, "MAX_CASES", {}).get(tier)
    try:
        while frontier:
            if max_cases and len(all_cases) + len(frontier) > max_cases:
                keep = max(0, max_cases - len(all_cases))
                caps.append("case cap %d hit at depth %d (%d cases dropped)" % (max_cases, depth, len(frontier) - keep))
                frontier = frontier[:keep]
                if not frontier:
                    break
            results = pool.map(frontier)
            nxt = []
            for case, res in zip(frontier, results):
                all_cases.append(case)
                all_results.append(res)
                n_evals += int(res.get("evals", 1))
                n_edges += int(res.get("edges", 0))
                n_undecided += int(res.get("undecided", 0))
                if "outcome" in res:
                    outcomes.add(jhash(res["outcome"]))
                st = res.get("state")
                new_state = True
                if st is not None:
                    if st in seen_states:
                        new_state = False
                    else:
                        seen_states.add(st)
                if new_state:
                    n_states += 1
                    nxt.extend(res.get("children", []))
            frontier = nxt
            depth += 1
    finally:
        pool.close()

    extra = {}
    if hasattr(mod, "finish"):
        extra = mod.finish(tier, seed, all_cases, all_results) or {}

    # ---- collect failures ---------------------------------------------------
    failures = []  # (key, case, faildict)
    for case, res in zip(all_cases, all_results):
        for f in res.get("fail", []):
            failures.append((f["key"], case, f))
    for f in extra.get("fail", []):
        failures.append((f["key"], f.get("case", {"finish": True}), f))
    by_key = {}
    for key, case, f in failures:
        by_key.setdefault(key, (case, f, 0))
        c, ff, n = by_key[key]
        by_key[key] = (c, ff, n + 1)

    exit_code = 0
    n_viol = 0
    known_seen = []
    known_hits = {}
    harness_errors = []
    transient = []
    confirmed = 0
    for key, (case, f, count) in by_key.items():
        if key.startswith("harness-"):
            # the check could not decide this case (non-converged SCF, alphabet on a kink, ...): never a VIOLATION
            harness_errors.append("%s: %s (%s)" % (key, f.get("msg", ""), label(case)))
            continue
        kf = match_known(known, cid, key)
        if kf is not None:
            kk = kf.get("key", "")
            known_hits.setdefault(kk, [kf, 0, 0])
            known_hits[kk][1] += 1
            known_hits[kk][2] += count
            known_seen.append(key)
            continue
        rp = os.path.join(REPLAYS, "%s-%s.json" % (cid, jhash([key, case])))
        rep = {
            "property": cid, "check": modname, "tier": tier, "seed": seed, "key": key,
            "case": case, "failure": f, "occurrences": count,
            "cmd": "python3 run_check.py %s --replay %s" % (cid, rp),
        }
        with open(rp, "w") as fh:
            json.dump(rep, fh, indent=1, default=str)
        ok = True
        if f.get("confirm", True) and confirmed < max_confirm and not case.get("finish"):
            ok, seen = confirm_in_fresh_process(cid, rp, key)
            confirmed += 1
            if not ok:
                if key == "crash" and all(len(x) == 0 for x in seen):
                    # the pool lost a worker while it ran this case (memory pressure, signal), and the case then ran to
                    # completion TWICE in fresh processes without any failure: the case is decided by those runs
                    transient.append(label(case))
                    continue
                harness_errors.append("failure %s not reproducible in a fresh process (saw %s)" % (key, seen))
                continue
        n_viol += 1
        print("VIOLATION property=%s replay=%s" % (cid, rp))
        print("  key: %s" % key)
        print("  what: %s" % f.get("msg", ""))
        print("  case: %s" % label(case))
        exit_code = 1

    for kk, (kf, nkeys, nocc) in known_hits.items():
        print("KNOWN-FINDING: property=%s %s [listed key %s; %d failing point(s), %d occurrence(s) this run]" % (cid, kf.get("what", ""), kk, nkeys, nocc))
    if harness_errors and exit_code == 0:
        exit_code = 2
    for h in harness_errors:
        print("HARNESS-ERROR: " + h)

    # ---- vacuity guards -----------------------------------------------------
    min_out = getattr(mod, "MIN_OUTCOMES", 2)
    if len(all_cases) == 0 or (len(outcomes) < min_out and not failures):
        print("HARNESS-ERROR: vacuous exploration (%d cases, %d distinct outcomes)" % (len(all_cases), len(outcomes)))
        if exit_code == 0:
            exit_code = 2

    # ---- evidence -----------------------------------------------------------
    samples = []
    step = max(1, len(all_cases) // 5)
    for i in range(0, len(all_cases), step):
        samples.append({"case": all_cases[i], "outcome": all_results[i].get("outcome"), "info": all_results[i].get("info")})
    samples = samples[:6]
    cov = {
        "states": max(n_states, 1),
        "transitions": max(n_edges, 1) if n_edges else max(len(all_cases) - 1, 1),
        "traces_validated_against_impl": len(all_cases),
        "evaluations": n_evals,
        "distinct_nontrivial": len(outcomes),
        "rule": getattr(mod, "LEVEL_RULE", ""),
        "samples": json.loads(json.dumps(samples, default=str)),
        "exhaustive": not caps,
        "explored_depth": depth,
        "caps_hit": caps,
        "undecided_smoothness": n_undecided,
        "known_findings_seen": known_seen,
        "cases_rerun_after_worker_loss": transient,
        "transitions_note": "edge relations evaluated between neighbouring states; when a check attaches no edge relation, the enumeration-order successor count is reported",
    }
    cov.update(extra.get("coverage", {}))
    ev = {
        "property_id": cid, "tier": tier, "seed": seed, "level": "model_checking",
        "coverage": cov, "assumptions": list(getattr(mod, "ASSUMPTIONS", [])),
        "wall_s": round(time.time() - t_start, 2), "violations": n_viol,
    }
    with open(os.path.join(EVID, "%s.json" % cid), "w") as fh:
        json.dump(ev, fh, indent=1, default=str)
    if os.environ.get("VERIF_DEBUG"):
        order = sorted(range(len(all_cases)), key=lambda i: -all_results[i].get("wall", 0))[:12]
        for i in order:
            print("  slow: %.1fs %s" % (all_results[i].get("wall", 0), label(all_cases[i])))
    print("%s %s seed=%d: cases=%d states=%d edges=%d evals=%d outcomes=%d undecided=%d violations=%d known=%d wall=%.1fs exit=%d" % (
        cid, tier, seed, len(all_cases), cov["states"], cov["transitions"], n_evals, len(outcomes), n_undecided,
        n_viol, len(known_seen), time.time() - t_start, exit_code))
    return exit_code
