"""A small crash-tolerant worker pool (fork based).  Each worker imports the check
module once and runs cases on request.  If a worker dies (segfault, abort from a
sanitizer or from the shim), the case it was running is reported as a crash and the
worker is replaced, so a crashing mutant is a *finding*, never a hang."""
import multiprocessing as mp
import os
import signal
import time
import traceback
from multiprocessing.connection import wait


def _worker_main(conn, modname, init_args):
    import importlib

    signal.signal(signal.SIGINT, signal.SIG_IGN)
    try:
        mod = importlib.import_module(modname)
        if getattr(mod, "VARIANT", None):
            from mc.boot import use_variant

            use_variant(mod.VARIANT)
        if hasattr(mod, "worker_init"):
            mod.worker_init(*init_args)
    except BaseException:
        conn.send(("initfail", traceback.format_exc()))
        conn.close()
        os._exit(3)
    conn.send(("ready", None))
    while True:
        try:
            msg = conn.recv()
        except EOFError:
            break
        if msg is None:
            break
        idx, case = msg
        t0 = time.time()
        try:
            res = mod.run_case(case)
            if res is None:
                res = {}
        except BaseException as e:  # classified by the runner as a failure of this case
            res = {
                "fail": [
                    {
                        "key": "exception:%s" % type(e).__name__,
                        "msg": "uncaught %s: %s" % (type(e).__name__, str(e)[:300]),
                        "traceback": traceback.format_exc()[-2000:],
                    }
                ]
            }
        res["wall"] = time.time() - t0
        conn.send(("done", (idx, res)))
    conn.close()
    os._exit(0)


class Pool:
    def __init__(self, modname, nproc=None, init_args=()):
        self.modname = modname
        self.init_args = init_args
        self.nproc = nproc or min(16, os.cpu_count() or 1)
        self.ctx = mp.get_context("fork")
        self.workers = []  # (proc, conn, current_idx)

    def _spawn(self):
        parent, child = self.ctx.Pipe()
        p = self.ctx.Process(target=_worker_main, args=(child, self.modname, self.init_args))
        p.daemon = True
        p.start()
        child.close()
        return {"proc": p, "conn": parent, "cur": None, "ready": False}

    def map(self, cases, progress=None, timeout_per_case=1800):
        """Run all cases; returns list of results in case order."""
        n = len(cases)
        results = [None] * n
        nxt = 0
        done = 0
        nw = min(self.nproc, max(1, n))
        while len(self.workers) < nw:
            self.workers.append(self._spawn())
        active = list(self.workers[:nw])
        initfail = None

        def give(w):
            nonlocal nxt
            if nxt < n:
                w["cur"] = nxt
                w["t0"] = time.time()
                w["conn"].send((nxt, cases[nxt]))
                nxt += 1
            else:
                w["cur"] = None

        for w in active:  # workers kept from a previous map() are already initialised
            if w["ready"] and w["cur"] is None:
                give(w)

        while done < n:
            conns = [w["conn"] for w in active]
            ready = wait(conns, timeout=5.0)
            now = time.time()
            for w in list(active):
                if w["conn"] in ready:
                    try:
                        tag, payload = w["conn"].recv()
                    except (EOFError, ConnectionResetError, OSError):
                        tag, payload = "dead", None
                    if tag == "ready":
                        w["ready"] = True
                        give(w)
                    elif tag == "done":
                        idx, res = payload
                        results[idx] = res
                        done += 1
                        if progress:
                            progress(done, n)
                        give(w)
                    elif tag == "initfail":
                        initfail = payload
                        done = n
                        break
                    else:  # worker died
                        w["proc"].join(1)
                        code = w["proc"].exitcode
                        idx = w["cur"]
                        if idx is not None:
                            results[idx] = {
                                "fail": [
                                    {
                                        "key": "crash",
                                        "msg": "worker process died (exit code %s) while running this case" % code,
                                    }
                                ]
                            }
                            done += 1
                        active.remove(w)
                        self.workers.remove(w)
                        nw_ = self._spawn()
                        self.workers.append(nw_)
                        active.append(nw_)
                elif w["cur"] is not None and now - w.get("t0", now) > timeout_per_case:
                    # hung case (deadlock in mutated code): kill the worker
                    try:
                        os.kill(w["proc"].pid, signal.SIGKILL)
                    except OSError:
                        pass
            if initfail:
                break
        if initfail:
            self.close()
            raise RuntimeError("worker initialisation failed:\n" + initfail)
        return results

    def close(self):
        for w in self.workers:
            try:
                w["conn"].send(None)
            except Exception:
                pass
        for w in self.workers:
            w["proc"].join(2)
            if w["proc"].is_alive():
                w["proc"].kill()
        self.workers = []
