"""Shared alphabets (DESIGN.md section 4): molecules, grids, density matrices,
feature settings and synthetic 'trained-model-shaped' functionals built in memory.

Everything here is deterministic; `seed` only selects the numerical values that
populate continuous slots (control points, weights, the rotation that makes a
full-rank density matrix)."""
import numpy as np

_CACHE = {}

MOLS = {
    "He": dict(atom="He 0 0 0", basis={"He": [[0, [2.5, 1.0]], [0, [0.45, 1.0]], [1, [1.1, 1.0]]]}, spin=0),
    "LiH": dict(atom="Li 0 0 -0.35; H 0 0 1.25", basis="sto-3g", spin=0),
    "HF": dict(atom="F 0 0 0.05; H 0 0 0.97", basis="sto-3g", spin=0),
    # generic position, no symmetry: the two hydrogens are inequivalent and every atom has three distinct non-zero
    # coordinates (a symmetric or axis-aligned geometry hides swapped atoms and swapped Cartesian components)
    "H2O": dict(atom="O 0.03 -0.02 0.1; H 0.31 0.71 -0.48; H -0.27 -0.78 -0.41", basis="sto-3g", spin=0),
    "Li": dict(atom="Li 0 0 0", basis="sto-3g", spin=1),
    "OH": dict(atom="O 0 0 0; H 0 0.3 0.93", basis="sto-3g", spin=1),
    "NH2": dict(atom="N 0 0 0.14; H 0 0.80 -0.49; H 0 -0.80 -0.49", basis="sto-3g", spin=1),
    "NH3": dict(atom="N 0 0 0.12; H 0 0.94 -0.27; H 0.81 -0.47 -0.27; H -0.81 -0.47 -0.27", basis="sto-3g", spin=0),
    "Hed": dict(atom="He 0 0 0", basis={"He": [[0, [1.9, 1.0]], [1, [1.0, 1.0]], [2, [1.4, 1.0]]]}, spin=0),
    # generally contracted shells (NCTR = 2 on both atoms): the AO <-> shell bookkeeping of the SDMX code differs from
    # the segmented case only here
    "LiHgc": dict(atom="Li 0 0 -0.35; H 0 0 1.25", basis={
        "Li": [[0, [16.1, 0.15, -0.03], [2.9, 0.53, -0.12], [0.8, 0.44, 0.1], [0.06, 0.0, 1.0]], [1, [0.16, 1.0]]],
        "H": [[0, [3.4, 0.15, 0.0], [0.62, 0.53, 0.2], [0.17, 0.44, 1.0]]]}, spin=0),
    # generally contracted shells with l >= 1 as well (NCTR = 2 in the Li p shell): the AO offset of the k-th contracted
    # function of a shell is k (2l + 1), which coincides with k only for s shells
    "LiHgcp": dict(atom="Li 0 0 -0.35; H 0 0 1.25", basis={
        "Li": [[0, [16.1, 0.15, -0.03], [2.9, 0.53, -0.12], [0.8, 0.44, 0.1], [0.06, 0.0, 1.0]], [1, [1.1, 0.35, 0.0], [0.16, 0.8, 1.0]]],
        "H": [[0, [3.4, 0.15, 0.0], [0.62, 0.53, 0.2], [0.17, 0.44, 1.0]], [1, [0.9, 1.0]]]}, spin=0),
    # an element that re-occurs after a different one (atom order H, O, H): per-element tables are indexed by atom
    "HOH": dict(atom="H 0 0.76 -0.48; O 0 0 0.1; H 0 -0.76 -0.48", basis="sto-3g", spin=0),
    # labelled atoms (PySCF allows "H1", "H@2"): per-element tables are keyed by the label in some places, the element in others
    "HOHlab": dict(atom="H1 0 0.76 -0.48; O 0 0 0.1; H@2 0 -0.76 -0.48", basis="sto-3g", spin=0),
    # a third-period element between two hydrogens: PySCF gives it different radial / angular tables at the same level
    "HSH": dict(atom="H 0.1 0.96 -0.6; S 0 0 0.1; H -0.2 -0.9 -0.7", basis="sto-3g", spin=0),
    "H2": dict(atom="H 0 0 -0.37; H 0 0 0.37", basis={"H": [[0, [1.2, 1.0]], [0, [0.3, 1.0]], [1, [0.8, 1.0]]]}, spin=0),
}


def _generic_position(table):
    """Every fixture molecule is moved by one fixed rigid motion into generic position: no atom at the origin or on a
    coordinate axis / plane, no two Cartesian components of any atom or bond equal.  Axis-aligned diatomics and atoms at
    the origin hide swapped Cartesian components and dropped atom offsets (seeded change C05_e: dy computed from the x
    coordinate of the atom was invisible for every molecule with x == y on all atoms)."""
    a, b, c = 0.61, 1.07, 2.23
    rz = lambda x: np.array([[np.cos(x), -np.sin(x), 0], [np.sin(x), np.cos(x), 0], [0, 0, 1]])
    ry = lambda x: np.array([[np.cos(x), 0, np.sin(x)], [0, 1, 0], [-np.sin(x), 0, np.cos(x)]])
    R = rz(a) @ ry(b) @ rz(c)
    t = np.array([0.17, -0.29, 0.41])
    for name, spec in table.items():
        out = []
        for part in spec["atom"].split(";"):
            sym, x, y, z = part.split()
            v = R @ np.array([float(x), float(y), float(z)]) + t
            out.append("%s %.12f %.12f %.12f" % (sym, v[0], v[1], v[2]))
        spec["atom_axis_aligned"] = spec["atom"]
        spec["atom"] = "; ".join(out)


_generic_position(MOLS)


def make_mol(name, atom=None, unit="Angstrom"):
    from pyscf import gto

    spec = MOLS[name]
    return gto.M(atom=atom if atom is not None else spec["atom"], basis=spec["basis"], spin=spec["spin"],
                 verbose=0, unit=unit)


# ----------------------------------------------------------------------------- density matrices
def lowdin(mol):
    s = mol.intor("int1e_ovlp")
    w, v = np.linalg.eigh(s)
    return v @ np.diag(w ** -0.5) @ v.T


def _rotation(n, seed):
    rng = np.random.RandomState(4242 + seed)
    a = rng.randn(n, n)
    q, r = np.linalg.qr(a)
    return q * np.sign(np.diag(r))


def make_dm(mol, kind, seed=0, nelec=None):
    """Symmetric density matrices.
    D0: idempotent aufbau from the core Hamiltonian (total, closed shell occupation 2)
    D1: full-rank positive definite, seeded rotation of Loewdin orbitals, ramp occupations
    D2: D1 with the ramp reversed.  All integrate to `nelec` electrons (default mol.nelectron)."""
    nao = mol.nao
    ne = mol.nelectron if nelec is None else nelec
    x = lowdin(mol)
    if kind == "D0":
        h = mol.intor("int1e_kin") + mol.intor("int1e_nuc")
        e, c = np.linalg.eigh(x.T @ h @ x)
        c = x @ c
        nocc = ne // 2
        occ = np.zeros(nao)
        occ[:nocc] = 2.0
        if ne % 2:
            occ[nocc] = 1.0
        return (c * occ) @ c.T
    q = _rotation(nao, seed)
    c = x @ q
    ramp = np.linspace(0.1, 1.9, nao)
    if kind == "D2":
        ramp = ramp[::-1]
    elif kind != "D1":
        raise ValueError(kind)
    ramp = ramp * (ne / ramp.sum())
    return (c * ramp) @ c.T


def sym_basis(nao):
    """All nao(nao+1)/2 symmetric basis directions E_ij (complete basis of Sym(nao))."""
    out = []
    for i in range(nao):
        for j in range(i, nao):
            e = np.zeros((nao, nao))
            e[i, j] = e[j, i] = 1.0
            out.append(((i, j), e))
    return out


# ----------------------------------------------------------------------------- feature settings
TH = [1.0, 0.03125, 0.02]
P1 = [2.0, 0.0625, 0.04]
P2 = [0.5, 0.016, 0.01]
P3 = [1.3, 0.04, 0.0]
P4 = [0.8, 0.0, 0.03]


def _gga(p):
    return p[:2]


def nldf_settings(family, sl_level="MGGA", rho_mult="one"):
    from ciderpress.dft import settings as S

    g = (lambda p: p) if sl_level == "MGGA" else _gga
    th = g(TH)
    if family == "VJ":
        return S.NLDFSettingsVJ(sl_level, th, rho_mult, ["se", "se_ar2", "se_a2r4", "se_erf_rinv"],
                                [g(P1), g(P2), g(P3), g(P4) + [0.7]])
    if family == "VJ2":
        return S.NLDFSettingsVJ(sl_level, th, rho_mult, ["se_ar2", "se"], [g(P2), g(P1)])
    if family == "VI":
        return S.NLDFSettingsVI(sl_level, th, rho_mult, ["se_r2", "se_apr2", "se_ap", "se_ap2r2", "se_lapl", "se"],
                                ["se_grad", "se_rvec"], [(0, 0), (-1, 0), (0, 1), (1, 1)])
    if family == "VIx":  # includes the (grad rho . se_rvec) dot, for which no recommended normaliser exists
        return S.NLDFSettingsVI(sl_level, th, rho_mult, ["se_ap"], ["se_grad", "se_rvec"], [(-1, 1), (1, 0)])
    if family == "VI0":
        return S.NLDFSettingsVI(sl_level, th, rho_mult, ["se_r2", "se_apr2"], [], [])
    if family == "VIJ":
        return S.NLDFSettingsVIJ(sl_level, th, rho_mult, ["se_r2", "se_apr2"], ["se_grad"], [(0, 0), (-1, 0)],
                                 ["se", "se_ar2"], [g(P1), g(P2)])
    if family == "VIJ2":
        return S.NLDFSettingsVIJ(sl_level, th, rho_mult, ["se_ap", "se_lapl"], ["se_rvec", "se_grad"], [(0, 1), (-1, 1)],
                                 ["se_a2r4", "se_erf_rinv"], [g(P3), g(P4) + [0.7]])
    if family == "VK":
        return S.NLDFSettingsVK(sl_level, th, rho_mult, [g(P1), g(P2)], "exponential")
    raise ValueError(family)


def sdmx_settings(kind):
    from ciderpress.dft import settings as S

    if kind == "SDMX":
        return S.SDMXSettings([0, 1, 2])
    if kind == "SDMX1":
        return S.SDMX1Settings([0, 1], 1)
    if kind == "SDMXG":
        return S.SDMXGSettings([0, 1], 1)
    if kind == "SDMXG1":
        return S.SDMXG1Settings([0, 1], 1, 1)
    # every power with every variant (value, radial-derivative 'd' and l=1 terms): each (power, variant) has its own
    # tabulated uniform-gas constant
    if kind == "SDMXG-all":
        return S.SDMXGSettings([0, 1, 2], 3)
    if kind == "SDMXG1-all":
        return S.SDMXG1Settings([0, 1, 2], 3, 2)
    if kind == "SDMX1-all":
        return S.SDMX1Settings([0, 1, 2], 3)
    if kind == "SADM":
        return S.SADMSettings("smooth")
    if kind == "SDMXFull":
        # keys deliberately not in ascending order: the package sorts the ratios in some places and iterates the dict in others
        return S.SDMXFullSettings({2.0: ([1], [1, 0, 0, 0]), 1.0: ([0, 1], [2, 1, 1, 0]), 1.5: ([0], [1, 1, 0, 0])})
    raise ValueError(kind)


def nlof_settings(kind):
    """Fractional-Laplacian (orbital-dependent) feature settings: scalar, l=1 and F^d / F^dd groups."""
    from ciderpress.dft import settings as S

    if kind == "FL":
        return S.FracLaplSettings([-0.5, 0.5, 1.0], 3, 2, [(0, 0), (-1, 1), (0, 1)])
    if kind == "FL0":
        return S.FracLaplSettings([0.25, -1.0], 2, 0, [])
    if kind == "FLd":
        return S.FracLaplSettings([-0.5, 0.5], 2, 1, [(-1, 0)], nd1=2, ld_dots=[(0, 1), (-1, 0)], ndd=1)
    if kind == "FLd2":  # more l=1 vectors than F^d vectors
        return S.FracLaplSettings([0.25, -0.5, 1.0], 1, 3, [(2, 1)], nd1=1, ld_dots=[(0, 0), (-1, 0)], ndd=1)
    raise ValueError(kind)


def feature_settings(family, slmode="npa", rho_mult="one", normalize=True):
    """family: 'SL', 'VJ', 'VI', 'VIJ', 'VK', 'SDMX', 'SDMX1', ..., or 'VIJ+SDMX'."""
    from ciderpress.dft import settings as S

    sl = S.SemilocalSettings(slmode)
    nldf = sdmx = nlof = None
    for part in family.split("+"):
        if part == "SL":
            continue
        if part.startswith("FL"):
            nlof = nlof_settings(part)
        elif part.startswith("V"):
            nldf = nldf_settings(part, sl.level, rho_mult)
        elif part.startswith("S"):
            sdmx = sdmx_settings(part)
        else:
            raise ValueError(part)
    st = S.FeatureSettings(sl_settings=sl, nldf_settings=nldf, nlof_settings=nlof, sdmx_settings=sdmx)
    if normalize:
        try:
            st.assign_reasonable_normalizer()
        except NotImplementedError:
            # no recommended normaliser exists for this combination (e.g. rho_mult='expnt',
            # or the (grad rho . se_rvec) contraction): the features stay un-normalised
            pass
    return st


# ----------------------------------------------------------------------------- synthetic functionals
def feature_list_for(settings, seed=0, variant=0):
    """A FeatureList reading every raw feature at least once, with maps that are smooth on
    the whole admissible range of that feature (semilocal: >=0; nonlocal: any real)."""
    from ciderpress.dft import transform_data as T

    nf = settings.nfeat
    nsl = settings.sl_settings.nfeat
    mode = settings.sl_settings.mode
    maps = []
    g = [0.3, 0.7, 1.6][(seed + variant) % 3]
    if mode in ("npa", "np"):
        maps.append(T.UMap(1, g))
    else:
        # nst / ns : index 1 is sigma (usp 8): use the rho-aware SL map
        maps.append(T.SLXMap(0, 1, g))
    if nsl == 3:
        if mode == "npa":
            maps.append(T.VMap(2, 0.5 + 0.2 * variant, scale=1.0, center=0.0))
        else:
            maps.append(T.SLTMap(0, 2))
    for i in range(nsl, nf):
        k = (i + variant) % 2
        if k == 0:
            maps.append(T.SignedUMap(i, 0.8 + 0.15 * i))
        else:
            maps.append(T.ZMap(i, 0.4 + 0.1 * i, scale=1.0, center=0.0))
    return T.FeatureList(maps)


def _bounds(fl):
    lo, hi = [], []
    for b in fl.bounds_list:
        lo.append(max(b[0], -2.0) if np.isfinite(b[0]) else -2.0)
        hi.append(min(b[1], 2.0) if np.isfinite(b[1]) else 2.0)
    return np.array(lo, float), np.array(hi, float)


def make_evaluator(kind, fl, seed=0, nctrl=9, salt=0):
    from ciderpress.dft import xc_evaluator as X
    from ciderpress.models.kernels import DiffConstantKernel, DiffRBF

    rng = np.random.RandomState(977 * seed + 31 * salt + 5)
    n1 = fl.nfeat
    lo, hi = _bounds(fl)
    ctrl = lo + (hi - lo) * rng.rand(nctrl, n1)
    alpha = 0.25 * rng.randn(nctrl)
    ls = 0.6 + 0.8 * rng.rand(n1)
    if kind == "RBF":
        return X.RBFEvaluator(DiffRBF(length_scale=ls), ctrl, alpha)
    if kind == "cRBF":
        return X.RBFEvaluator(DiffConstantKernel(1.7) * DiffRBF(length_scale=ls), ctrl, alpha)
    if kind == "Kernel":
        return X.KernelEvaluator(DiffConstantKernel(0.8) * DiffRBF(length_scale=ls), ctrl, alpha)
    if kind == "Linear":
        return X.GlobalLinearEvaluator(0.2 * rng.randn(n1))
    if kind == "AntisymRBF":
        # antisymmetric kernel acts on (nsamp, n1) with the first column the antisymmetric coordinate
        return X.AntisymRBFEvaluator(DiffRBF(length_scale=ls[1:]), ctrl, alpha)
    if kind == "SpinRBF":
        ctrl2 = lo + (hi - lo) * rng.rand(2, nctrl, n1)
        return X.SpinRBFEvaluator(DiffRBF(length_scale=ls), ctrl2, alpha)
    if kind == "Spline":
        return make_spline_evaluator(fl, rng)
    raise ValueError(kind)


def make_spline_evaluator(fl, rng, sizes=(5, 4, 4)):
    """A SplineSetEvaluator with 1-D, 2-D and (if enough features) 3-D terms whose
    coefficient arrays are seeded (cubic-spline coefficient arrays have n+2 entries per axis)."""
    from ciderpress.dft import xc_evaluator as X

    n1 = fl.nfeat
    lo, hi = _bounds(fl)
    ind_sets, grids, coeffs, scale = [], [], [], []
    terms = [[0], [n1 - 1]]
    # multi-dimensional terms list their feature columns in NON-ascending order (axis k of the coefficient array belongs
    # to the k-th listed column; the axes have different sizes, so any reordering of an index set changes the function)
    if n1 >= 2:
        terms.append([1, 0])
    if n1 >= 3:
        terms.append([2, 0, 1])
    for t in terms:
        g = [(float(lo[i]) - 0.05, float(hi[i]) + 0.05, sizes[k]) for k, i in enumerate(t)]
        shape = [sizes[k] + 2 for k in range(len(t))]
        ind_sets.append(list(t))
        grids.append(g)
        coeffs.append(0.3 * rng.randn(*shape))
        scale.append(0.5 + rng.rand())
    return X.SplineSetEvaluator(scale, ind_sets, grids, coeffs, const=0.1)


def make_mlxc(settings, evals=("RBF",), mode="SEP", mul="LDA_X", add="ZERO", seed=0, variant=0,
              libxc=False, nkernel=1):
    """MappedXC (native baselines) or MappedXC2 (libxc baselines, libxc=True)."""
    from ciderpress.dft import xc_evaluator as X
    from ciderpress.dft import xc_evaluator2 as X2
    from ciderpress.dft.baselines import BASELINE_CODES

    kernels = []
    for ik in range(nkernel):
        fl = feature_list_for(settings, seed, variant + ik)
        fe = [make_evaluator(k, fl, seed, salt=j + 10 * ik) for j, k in enumerate(evals)]
        if libxc:
            kernels.append(X2.MappedDFTKernel2(fe, fl, mode, mul, add))
        else:
            kernels.append(X.MappedDFTKernel(fe, fl, mode, BASELINE_CODES[mul],
                                             BASELINE_CODES[add] if add is not None else None))
    if libxc:
        return X2.MappedXC2(kernels, settings)
    return X.MappedXC(kernels, settings)


# ----------------------------------------------------------------------------- calculators
# coarse but COMPLETE discretisation: with the default spacing (dparam 0.04) 60 radial spline nodes end at 0.3 Bohr and
# everything beyond is truncated (the features then lose all off-site content and whole force terms vanish); dparam 0.11
# puts the 60 nodes on 0 ... 22 Bohr
FAST_NLDF = dict(aux_lambd=2.0, nrad=60, dparam=0.11, alpha_max=2000.0)


def make_ks(mol, mlxc, nspin=1, atom_grid=(20, 50), lmax=4, xmix=1.0, xkernel=None, ckernel=None, xc=None,
            plan_type="gaussian", interpolator_type="onsite_direct", alpha_formula=None, rhocut=None,
            nldf_kwargs=None, prune=None, level=None, lowmem=False, df=False):
    """A make_cider_calc-decorated KS object with grids built (CiderGrids when the model
    has NLDF features) on the coarse-but-consistent numerical settings used for derivative checks."""
    from pyscf import dft

    from ciderpress.pyscf.dft import make_cider_calc
    from ciderpress.pyscf.gen_cider_grid import CiderGrids
    from ciderpress.pyscf.nldf_convolutions import PySCFNLDFInitializer
    from ciderpress.pyscf.sdmx import PySCFSDMXInitializer

    ks = dft.RKS(mol) if nspin == 1 else dft.UKS(mol)
    if df:
        ks = ks.density_fit()
    if level is not None:
        ks.grids.level = level
    else:
        ks.grids.atom_grid = atom_grid
    ks.grids.prune = prune
    st = mlxc.settings
    nldf_init = sdmx_init = None
    if st.has_nldf:
        kw = dict(FAST_NLDF)
        kw.update(plan_type=plan_type, interpolator_type=interpolator_type, lmax=lmax)
        if alpha_formula is not None:
            kw["alpha_formula"] = alpha_formula
        kw.update(nldf_kwargs or {})
        nldf_init = PySCFNLDFInitializer(st.nldf_settings, **kw)
    if st.has_sdmx:
        sdmx_init = PySCFSDMXInitializer(st.sdmx_settings, lowmem=lowmem)
    ks = make_cider_calc(ks, mlxc, xmix=xmix, xc=xc, xkernel=xkernel, ckernel=ckernel,
                         nldf_init=nldf_init, sdmx_init=sdmx_init, rhocut=rhocut)
    if isinstance(ks.grids, CiderGrids):
        ks.grids.lmax = lmax
        ks.grids.nlm = (lmax + 1) ** 2
    ks.build()
    build_grids(ks.grids, lmax)
    return ks


def build_grids(grids, lmax=4, **kw):
    from ciderpress.pyscf.gen_cider_grid import CiderGrids

    if isinstance(grids, CiderGrids):
        grids.build(with_non0tab=True, full_lmax=lmax, **kw)
    else:
        grids.build(with_non0tab=True, **kw)
    return grids


def nr(ks, dm, **kw):
    """(nelec, excsum, vmat) through the integrator PySCF would call."""
    ni = ks._numint
    dm = np.asarray(dm)
    if ks.__class__.__name__.startswith("UKS") or getattr(ks, "_is_uks", False) or _is_uks(ks):
        return ni.nr_uks(ks.mol, ks.grids, ks.xc, dm, **kw)
    return ni.nr_rks(ks.mol, ks.grids, ks.xc, dm, **kw)


def _is_uks(ks):
    from pyscf import dft

    return isinstance(ks, dft.uks.UKS)
