"""Accepted calls executed on the AddressSanitizer build (C18 part iii):
   c18_asan.py <tier> <seed> <team> <part> <nparts> <start_index>
Every harness body of C10 (all Python-reachable C entry points, with offsets/strides),
end-to-end integrator calls and a slice of the FFT plan alphabet."""
import json
import os
import sys

VERIF = os.path.dirname(os.path.dirname(os.path.abspath(__file__)))
sys.path.insert(0, VERIF)


def main():
    tier, seed, team, part, nparts, start = sys.argv[1], int(sys.argv[2]), int(sys.argv[3]), int(sys.argv[4]), int(sys.argv[5]), int(sys.argv[6])
    from mc.boot import use_variant

    use_variant("asan")
    import itertools

    from checks import c10_entries as E

    from mc import vgomp

    tab = E.entry_table("quick") + E.e2e_table("quick")
    # offsets/strides of the radial/angular transforms
    for lay in ("He-5x14-l2", "HF-4x14-l2"):
        for op in ("angc", "rad2orb"):
            for off, extra, d in itertools.product((0, 2), (0, 1), ("fwd", "bwd")):
                tab.append({"entry": "c05", "op": op, "dir": d, "layout": lay, "offset": off, "extra": extra})
    for dims in ([1], [2], [5], [3, 4], [4, 3], [2, 3, 5], [1, 1, 1], [2, 3, 2, 3]):
        for r2c, fwd, inplace, (nt, bf) in itertools.product((False, True), (True, False), (False, True), ((1, True), (2, False), (3, True))):
            tab.append({"entry": "fft", "dims": dims, "r2c": r2c, "fwd": fwd, "inplace": inplace, "nt": nt, "batch_first": bf})
    mine = [p for i, p in enumerate(tab) if i % nparts == part]
    n = 0
    for i, p in enumerate(mine):
        if i < start:
            continue
        p = dict(p, seed=seed)
        print("C18-ENTRY %d %s" % (i, json.dumps(p, sort_keys=True)))
        sys.stdout.flush()
        fn, keep = E.build(p)
        policy = (i % 3) if team > 1 else 0
        vgomp.execute(fn, (), team=team, policy=policy)
        n += 1
    print("C18-DONE %d %d" % (n, len(mine)))
    sys.stdout.flush()
    os._exit(0)


if __name__ == "__main__":
    main()
