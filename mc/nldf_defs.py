"""Independent transcription of the DOCUMENTED feature definitions (docs/features/nldf.rst,
docs/features/sdmx.rst, the spec docstrings of ciderpress/dft/settings.py).  Nothing here calls
into the package's numerical code; it is the reference model for C02 (fast paths vs definition)
and C13 (reported uniform-gas values vs definition).

The only piece that is not spelled out in the documentation is the conversion of the user
parameters (a0, grad_mul, tau_mul) into the documented (A, B, C):
    A = a0,  B = grad_mul * kappa,  C = tau_mul * kappa,  kappa = 1.2 (6 pi^2)^(2/3) / pi.
"""
import numpy as np
from scipy import integrate, special

CFC = 0.3 * (3 * np.pi ** 2) ** (2.0 / 3)
KAPPA = 1.2 * (6 * np.pi ** 2) ** (2.0 / 3) / np.pi


def tau_ueg(rho):
    return CFC * rho ** (5.0 / 3)


def exponent(rho, sigma, tau, params, level):
    """a_i[n](r) = pi (n/2)^(2/3) [A + B (|grad n|^2 / (8 n tau0)) + C (tau/tau0 - 1)]."""
    rho = np.asarray(rho, dtype=float)
    t0 = tau_ueg(rho)
    A = params[0]
    B = params[1] * KAPPA
    val = A + B * sigma / (8 * rho * t0)
    if level == "MGGA":
        C = params[2] * KAPPA
        val = val + C * (tau / t0 - 1.0)
    return np.pi * (rho / 2.0) ** (2.0 / 3) * val


# ----------------------------------------------------------------------------- kernels
def k_i(spec, a, r):
    """Version-i scalar kernels k_*(a0[n](r'), |r - r'|)."""
    e = np.exp(-a * r * r)
    if spec == "se":
        return e
    if spec == "se_r2":
        return r * r * e
    if spec == "se_apr2":
        return a * r * r * e
    if spec == "se_ap":
        return a * e
    if spec == "se_ap2r2":
        return a * a * r * r * e
    if spec == "se_lapl":
        return 4 * a * a * r * r * e - 2 * a * e
    raise ValueError(spec)


def k_i_l1(spec, a, r):
    """Radial factor of the vector kernels (r' - r) k(a, |r - r'|)."""
    if spec == "se_grad":
        return a * np.exp(-a * r * r)
    if spec == "se_rvec":
        return np.exp(-a * r * r)
    raise ValueError(spec)


def k_j(spec, ai, a0, r, erf_mul=None):
    """Version-j kernels: squared exponential in (a_i(r) + a_0(r')) times a spec factor in a_i(r)."""
    E = ai + a0
    e = np.exp(-E * r * r)
    if spec == "se":
        return e
    if spec == "se_ar2":
        return ai * r * r * e
    if spec == "se_a2r4":
        return (ai * r * r) ** 2 * e
    if spec == "se_erf_rinv":
        c = ai * erf_mul
        x = np.sqrt(c) * r
        with np.errstate(divide="ignore", invalid="ignore"):
            f = np.where(x > 1e-8, np.sqrt(np.pi) * special.erf(x) / (2 * np.where(x > 1e-8, x, 1.0)), 1.0 - x * x / 3.0)
        return f * e
    raise ValueError(spec)


def k_k(ai, a0, r):
    """Version-k: exp(-a_i(r) |r-r'|^2) exp(-3 a_0(r') / (2 a_i(r)))."""
    return np.exp(-ai * r * r) * np.exp(-1.5 * a0 / ai)


def _radial(f):
    val, err = integrate.quad(lambda r: 4 * np.pi * r * r * f(r), 0, np.inf, epsabs=1e-14, epsrel=1e-12, limit=400)
    return val


def _lvl_params(p, level):
    return list(p)


def ueg_features(st, rho):
    """Uniform-gas values of the features of an NLDF settings object, by radial quadrature."""
    level = st.sl_level
    sig, tau = 0.0, tau_ueg(rho)
    a0 = float(exponent(rho, sig, tau, st.theta_params, level))
    b = a0 if st.rho_mult == "expnt" else 1.0
    out_j, out_i = [], []
    ver = st.version
    if ver in ("j", "ij"):
        for spec, p in zip(st.feat_specs, st.feat_params):
            ai = float(exponent(rho, sig, tau, p, level))
            em = p[-1] if spec == "se_erf_rinv" else None
            out_j.append(rho * b * _radial(lambda r: k_j(spec, ai, a0, r, em)))
    if ver == "k":
        for spec, p in zip(st.feat_specs, st.feat_params):
            ai = float(exponent(rho, sig, tau, p, level))
            out_j.append(rho * b * _radial(lambda r: k_k(ai, a0, r)))
    if ver in ("i", "ij"):
        for spec in st.l0_feat_specs:
            out_i.append(rho * b * _radial(lambda r: k_i(spec, a0, r)))
        for _ in st.l1_feat_dots:
            out_i.append(0.0)  # vector integrals of an isotropic integrand vanish; grad n = 0
    return out_j + out_i


# ----------------------------------------------------------------------------- SDMX
def _h(u, R):
    x = np.exp(-2 * u * u / (R * R))
    return (2 / np.pi) ** 1.5 * 4 / (4 - np.sqrt(2)) * x / R ** 3 * (1 - x)


def _dh_dR(u, R):
    d = 1e-5 * R
    return (_h(u, R + d) - _h(u, R - d)) / (2 * d)


def _n1_ueg(u, rho):
    kf = (3 * np.pi ** 2 * rho) ** (1.0 / 3)
    x = kf * u
    small = x < 1e-3
    xs = np.where(small, 1.0, x)
    j1x = np.where(small, 1.0 / 3 - x * x / 30, (np.sin(xs) - xs * np.cos(xs)) / xs ** 3)
    return 3 * rho * j1x


def _gl(a, b, n):
    x, w = np.polynomial.legendre.leggauss(n)
    return 0.5 * (b - a) * x + 0.5 * (b + a), 0.5 * (b - a) * w


def _rho0_vec(R, rho):
    """rho^0(R) for an array of R: composite Gauss-Legendre in u = R x (vectorised)."""
    xs, ws = [], []
    for a, b in zip(np.linspace(0, 7, 29)[:-1], np.linspace(0, 7, 29)[1:]):
        x, w = _gl(a, b, 96)
        xs.append(x)
        ws.append(w)
    x = np.concatenate(xs)
    w = np.concatenate(ws)
    u = R[:, None] * x[None, :]
    val = 4 * np.pi * u * u * _h(u, R[:, None]) * _n1_ueg(u, rho)
    return (val * w[None, :]).sum(1) * R


def sdmx_H(j, rho, deriv=False):
    """H_j^0 (deriv=False) or H_j^0d (deriv=True) of the uniform gas from the documented definition:
    outer integral over R on a logarithmic composite Gauss-Legendre grid, kF R in [1e-4, 40]
    (rho^0 decays like a Gaussian in kF R beyond; below, the integrand is a power of R)."""
    kf = (3 * np.pi ** 2 * rho) ** (1.0 / 3)
    ts, ws = [], []
    edges = np.linspace(np.log(1e-4), np.log(40.0), 41)
    for a, b in zip(edges[:-1], edges[1:]):
        t, w = _gl(a, b, 24)
        ts.append(t)
        ws.append(w)
    t = np.concatenate(ts)
    w = np.concatenate(ws)
    R = np.exp(t) / kf
    if deriv:
        d = 1e-4
        r0 = (_rho0_vec(R * (1 + d), rho) - _rho0_vec(R * (1 - d), rho)) / (2 * d * R)
        pw = 4 - j
    else:
        r0 = _rho0_vec(R, rho)
        pw = 2 - j
    core = (4 * np.pi * R ** pw * r0 ** 2 * R * w).sum()
    # analytic head: for kF R < 1e-4, rho^0 = rho (no derivative), integrand 4 pi R^(2-j) rho^2
    if not deriv:
        Rm = 1e-4 / kf
        core += 4 * np.pi * rho * rho * Rm ** (3 - j) / (3 - j)
    return core


_SDMX_CACHE = {}


def sdmx_ueg(st, rho, nspin=1):
    """Uniform-gas values of the SDMX settings' features: -1/4 nspin^2 H (the documented H's are
    positive definite forms; the package stores exchange-like features with the -1/4 convention)."""
    name = type(st).__name__
    if name == "SADMSettings":
        return None
    fac = -0.25 * nspin * nspin

    def H(j, d):
        key = (j, d)
        if key not in _SDMX_CACHE:
            _SDMX_CACHE[key] = sdmx_H(j, 1.0, d)
        # exact power law of the definition: H_j[rho] = rho^(1 + j/3) H_j[1]
        return _SDMX_CACHE[key] * rho ** (1 + j / 3.0)

    if name == "SDMXFullSettings":
        return None
    pows = list(st.pows)
    out = [fac * H(j, False) for j in pows]
    nd = getattr(st, "ndterms", 0) if hasattr(st, "ndterms") else 0
    out += [fac * H(j, True) for j in pows[:nd]]
    n1 = getattr(st, "n1terms", 0) if hasattr(st, "n1terms") else 0
    out += [0.0] * n1
    return out
