"""Map source lines of the -fsanitize=thread build to the return addresses of their
__tsan_read/__tsan_write calls (the instrumented memory accesses), so that race
candidates reported by ThreadSanitizer can be promoted to scheduling points."""
import json
import os
import re
import subprocess


def site_table(build_dir, libname):
    cache = os.path.join(build_dir, libname + ".sites.json")
    path = os.path.join(build_dir, libname)
    if os.path.exists(cache) and os.path.getmtime(cache) >= os.path.getmtime(path):
        with open(cache) as fh:
            return json.load(fh)
    dis = subprocess.run(["objdump", "-d", "--no-show-raw-insn", path], stdout=subprocess.PIPE, text=True).stdout
    calls = []  # (call_addr, ret_addr)
    prev_call = None
    pat = re.compile(r"^\s*([0-9a-f]+):\s+(\S+)\s*(.*)$")
    for line in dis.splitlines():
        m = pat.match(line)
        if not m:
            continue
        addr = int(m.group(1), 16)
        if prev_call is not None:
            calls.append((prev_call, addr))
            prev_call = None
        if m.group(2).startswith("call") and re.search(r"__tsan_(unaligned_)?(read|write)\d*(_range)?(@plt)?>", m.group(3)):
            prev_call = addr
    table = {}
    if calls:
        inp = "\n".join("0x%x" % c for c, _ in calls)
        out = subprocess.run(["addr2line", "-e", path], input=inp, stdout=subprocess.PIPE, text=True).stdout.splitlines()
        for (c, r), loc in zip(calls, out):
            f, _, ln = loc.rpartition(":")
            ln = ln.split()[0]
            key = "%s:%s" % (os.path.basename(f), ln)
            table.setdefault(key, []).append(r)
    with open(cache, "w") as fh:
        json.dump(table, fh)
    return table


def lib_base(libname):
    """Load address of a loaded shared library (first mapping in /proc/self/maps)."""
    with open("/proc/self/maps") as fh:
        for line in fh:
            if line.rstrip().endswith("/" + libname):
                return int(line.split("-")[0], 16)
    return None


def pcs_for_sites(build_dir, sites, widen=0):
    """sites: ['file.c:123:function', ...] -> absolute return addresses in this process."""
    pcs = []
    for libname in ("libmcider.so", "libfft_wrapper.so", "libnumint.so"):
        base = lib_base(libname)
        if base is None:
            continue
        tab = site_table(build_dir, libname)
        for s in sites:
            f, ln = s.split(":")[:2]
            for d in range(-widen, widen + 1):
                for off in tab.get("%s:%d" % (f, int(ln) + d), []):
                    pcs.append(base + off)
    return sorted(set(pcs))
