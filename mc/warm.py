"""Warm the numba on-disk cache (NUMBA_CACHE_DIR=/verif/build/numba_cache) for the cubic-spline
evaluators of dimension 1-4, so that checks do not each pay ~15 s of JIT compilation per process."""
import os
import sys

VERIF = os.path.dirname(os.path.dirname(os.path.abspath(__file__)))
sys.path.insert(0, VERIF)


def main():
    from mc.boot import use_variant

    use_variant("plain")
    import numpy as np

    from ciderpress.dft.xc_evaluator import get_vec_eval

    for n in (1, 2, 3, 4):
        grid = [(0.0, 1.0, 4)] * n
        coeffs = np.zeros([6] * n)
        get_vec_eval(grid, coeffs, np.full((3, n), 0.5), n)
    print("numba cache warmed")


if __name__ == "__main__":
    main()
