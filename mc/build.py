"""Build the CiderPress C back end from /repo's *current working tree* into
/verif/build/<variant>/ (git-ignored).  A variant is rebuilt whenever the hash of
the sources + shim sources + flags changes, so every check runs code compiled from
the tree as it is now.

Variants
  plain : -O2 -fopenmp, libgomp                      (value checks)
  sched : -O1 -g -fopenmp objects linked to libvgomp (controlled OpenMP runtime)
  asan  : -O1 -g -fsanitize=address + libvgomp
  tsan  : -O1 -g -fsanitize=thread objects + libvgomp (own __tsan_* hooks, or real
          libtsan when preloaded)
Each variant directory holds libmcider.so, libfft_wrapper.so (against shim/vfftw.c),
libxc_utils.so, and for non-plain variants libvgomp.so.
"""
import fcntl
import hashlib
import os
import shutil
import subprocess
import sys
from concurrent.futures import ThreadPoolExecutor

VERIF = os.path.dirname(os.path.dirname(os.path.abspath(__file__)))
REPO = os.environ.get("VERIF_REPO", "/repo")
LIB = os.path.join(REPO, "ciderpress", "lib")
SHIM = os.path.join(VERIF, "shim")
BUILD = os.path.join(VERIF, "build")
if REPO != "/repo":
    BUILD = os.path.join(VERIF, "build", "alt-" + hashlib.sha1(os.path.abspath(REPO).encode()).hexdigest()[:10])
PYSCF_DEPS = "/venv/lib/python3.12/site-packages/pyscf/lib/deps"

MOD_CIDER = [
    "frac_lapl.c", "cider_coefs.c", "cider_grids.c", "spline.c", "sph_harm.c",
    "conv_interpolation.c", "convolutions.c", "fast_sdmx.c", "pbc_tools.c",
    "debug_numint.c", "model_utils.c",
]

VARIANTS = {
    "plain": dict(cflags=["-O2", "-fopenmp"], vgomp=False),
    "sched": dict(cflags=["-O1", "-g", "-fopenmp", "-fno-omit-frame-pointer"], vgomp=True),
    "asan": dict(cflags=["-O1", "-g", "-fopenmp", "-fsanitize=address",
                         "-fno-omit-frame-pointer"], vgomp=True),
    "tsan": dict(cflags=["-O1", "-g", "-fopenmp", "-fsanitize=thread",
                         "-fno-omit-frame-pointer"], vgomp=True),
}


def _source_files():
    out = []
    for sub in ("mod_cider", "fft_wrapper", "xc_utils", "numint_cider"):
        d = os.path.join(LIB, sub)
        if not os.path.isdir(d):
            continue
        for f in sorted(os.listdir(d)):
            if f.endswith((".c", ".h")):
                out.append(os.path.join(d, f))
    if os.path.isdir(SHIM):
        for f in sorted(os.listdir(SHIM)):
            if f.endswith((".c", ".h")):
                out.append(os.path.join(SHIM, f))
    return out


def source_key(variant):
    h = hashlib.sha1()
    h.update(repr(VARIANTS[variant]).encode())
    h.update(b"v7")
    for f in _source_files():
        h.update(f.encode())
        with open(f, "rb") as fh:
            h.update(fh.read())
    return h.hexdigest()


def _run(cmd):
    r = subprocess.run(cmd, stdout=subprocess.PIPE, stderr=subprocess.STDOUT, text=True)
    if r.returncode != 0:
        raise RuntimeError("build failed: %s\n%s" % (" ".join(cmd), r.stdout))
    return r.stdout


def build(variant="plain", quiet=True):
    """Return the directory that holds the libraries of `variant`, (re)building if
    the working-tree sources changed."""
    os.makedirs(BUILD, exist_ok=True)
    out = os.path.join(BUILD, variant)
    lock = open(os.path.join(BUILD, ".lock-" + variant), "w")
    fcntl.flock(lock, fcntl.LOCK_EX)
    try:
        key = source_key(variant)
        keyfile = os.path.join(out, ".key")
        if os.path.exists(keyfile) and open(keyfile).read() == key:
            return out
        if os.path.isdir(out):
            shutil.rmtree(out)
        os.makedirs(out)
        obj = os.path.join(out, "obj")
        os.makedirs(obj)
        v = VARIANTS[variant]
        cflags = v["cflags"] + ["-fPIC", "-std=gnu99", "-w"]
        inc = ["-I" + os.path.join(LIB, "fft_wrapper"), "-I" + os.path.join(LIB, "mod_cider"),
               "-I" + LIB, "-I" + SHIM]
        cfg = os.path.join(LIB, "fft_wrapper", "cider_fft_config.h")
        if not os.path.exists(cfg):
            # the header CMake generates from the tracked template config.h.in (absent in a bare checkout):
            # no MPI, FFTW back end (the only one that exists in this sandbox, realised by shim/vfftw.c)
            tmpl = open(os.path.join(LIB, "fft_wrapper", "config.h.in")).read()
            tmpl = tmpl.replace("#cmakedefine01 HAVE_MPI", "#define HAVE_MPI 0")
            tmpl = tmpl.replace("#cmakedefine FFT_BACKEND @FFT_BACKEND@", "#define FFT_BACKEND 2")
            with open(os.path.join(obj, "cider_fft_config.h"), "w") as fh:
                fh.write(tmpl)
            inc.append("-I" + obj)
        jobs = []
        for f in MOD_CIDER:
            jobs.append((os.path.join(LIB, "mod_cider", f), os.path.join(obj, "m_" + f[:-2] + ".o"), []))
        jobs.append((os.path.join(LIB, "fft_wrapper", "cider_fft.c"), os.path.join(obj, "f_cider_fft.o"), []))
        jobs.append((os.path.join(LIB, "xc_utils", "libxc_baselines.c"),
                     os.path.join(obj, "x_libxc_baselines.o"),
                     ["-I" + os.path.join(PYSCF_DEPS, "include")]))
        jobs.append((os.path.join(LIB, "numint_cider", "nr_numint.c"), os.path.join(obj, "n_nr_numint.o"), []))

        def cc(job):
            src, o, extra = job
            _run(["gcc"] + cflags + inc + extra + ["-c", src, "-o", o])
            return o

        with ThreadPoolExecutor(16) as ex:
            list(ex.map(cc, jobs))
        # shim objects: never sanitised (vfftw does its own address checking; vgomp is
        # the runtime and must not be instrumented)
        vfftw_o = os.path.join(obj, "vfftw.o")
        san = [f for f in v["cflags"] if f.startswith("-fsanitize=address")]
        _run(["gcc", "-O2", "-g", "-fPIC", "-std=gnu99", "-I" + SHIM]
             + (["-DRZ=0"] if san else []) + ["-c",
              os.path.join(SHIM, "vfftw.c"), "-o", vfftw_o])
        if v["vgomp"]:
            _run(["gcc", "-O1", "-g", "-fPIC", "-std=gnu99", "-shared", "-pthread",
                  os.path.join(SHIM, "vgomp.c"), "-o", os.path.join(out, "libvgomp.so")])
            omp_link = ["-L" + out, "-lvgomp", "-Wl,-rpath," + out]
        else:
            omp_link = ["-fopenmp"]
        # libfft_wrapper
        _run(["gcc", "-shared", "-o", os.path.join(out, "libfft_wrapper.so"),
              os.path.join(obj, "f_cider_fft.o"), vfftw_o] + san + omp_link + ["-lm"])
        # libmcider
        _run(["gcc", "-shared", "-o", os.path.join(out, "libmcider.so")]
             + [os.path.join(obj, "m_" + f[:-2] + ".o") for f in MOD_CIDER] + san
             + ["-L" + out, "-lfft_wrapper", "-Wl,-rpath," + out] + omp_link
             + ["-lopenblas", "-lm"])
        # libxc_utils
        _run(["gcc", "-shared", "-o", os.path.join(out, "libxc_utils.so"),
              os.path.join(obj, "x_libxc_baselines.o")] + san + omp_link
             + ["-L" + os.path.join(PYSCF_DEPS, "lib"), "-lxc",
                "-Wl,-rpath," + os.path.join(PYSCF_DEPS, "lib"), "-lm"])
        # libnumint (not loaded by any python module; driven through ctypes by C10)
        _run(["gcc", "-shared", "-o", os.path.join(out, "libnumint.so"),
              os.path.join(obj, "n_nr_numint.o")] + san + omp_link + ["-lopenblas", "-lm"])
        shutil.rmtree(obj)
        with open(keyfile, "w") as fh:
            fh.write(key)
        if not quiet:
            print("built", variant, "->", out)
        return out
    finally:
        fcntl.flock(lock, fcntl.LOCK_UN)
        lock.close()


if __name__ == "__main__":
    for var in (sys.argv[1:] or ["plain"]):
        print(build(var, quiet=False))
