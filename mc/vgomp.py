"""Python side of E3: drive the controllable OpenMP runtime (shim/vgomp.c) and run the
CHESS-style deviation-bounded schedule search (DESIGN.md section 3.4, appendix A)."""
import ctypes
import hashlib
import os

import numpy as np

_LIB = None
TRACE_CAP = 1 << 22


def lib():
    global _LIB
    if _LIB is None:
        from mc.boot import current_build_dir

        d = current_build_dir()
        if d is None:
            raise RuntimeError("use_variant('sched'|'asan'|'tsan') first")
        _LIB = ctypes.CDLL(os.path.join(d, "libvgomp.so"))
        _LIB.vgomp_trace.restype = ctypes.c_long
        _LIB.vgomp_trace.argtypes = [ctypes.c_void_p] * 4 + [ctypes.c_long]
        _LIB.vgomp_message.restype = ctypes.c_char_p
        _LIB.vgomp_regions.restype = ctypes.c_long
        _LIB.vgomp_race_hits.restype = ctypes.c_long
        _LIB.vgomp_reset()
    return _LIB


def config(team, mode=1, policy=0):
    lib().vgomp_config(int(team), int(mode), int(policy))


def set_race_pcs(pcs):
    a = np.asarray(sorted(set(int(p) for p in pcs)), dtype=np.uint64)
    lib().vgomp_set_race_pcs(a.ctypes.data_as(ctypes.c_void_p), ctypes.c_int(a.size))


class Run:
    __slots__ = ("nen", "choice", "me", "kind", "npoints", "status", "message", "regions", "race_hits", "output")


def execute(fn, prefix=(), team=2, policy=0, mode=1):
    """Run fn() under the controlled runtime with the given choice prefix."""
    L = lib()
    config(team, mode, policy)
    p = np.asarray(list(prefix), dtype=np.int32)
    L.vgomp_set_prefix(p.ctypes.data_as(ctypes.c_void_p), ctypes.c_int(p.size))
    L.vgomp_reset()
    out = fn()
    n = L.vgomp_trace(None, None, None, None, 0)
    r = Run()
    m = min(n, TRACE_CAP)
    r.nen = np.zeros(m, dtype=np.uint8)
    r.choice = np.zeros(m, dtype=np.uint8)
    r.me = np.zeros(m, dtype=np.uint8)
    r.kind = np.zeros(m, dtype=np.uint8)
    if m:
        L.vgomp_trace(r.nen.ctypes.data_as(ctypes.c_void_p), r.choice.ctypes.data_as(ctypes.c_void_p),
                      r.me.ctypes.data_as(ctypes.c_void_p), r.kind.ctypes.data_as(ctypes.c_void_p), m)
    r.npoints = int(n)
    r.status = int(L.vgomp_status())
    r.message = L.vgomp_message().decode()
    r.regions = int(L.vgomp_regions())
    r.race_hits = int(L.vgomp_race_hits())
    r.output = out
    L.vgomp_set_prefix(None, 0)
    config(1, 1, 0)
    return r


def _compress(prefix):
    """Schedules are mostly zeros: keep them as [[index, choice], ..., ["len", n]] for reports."""
    nz = [[i, c] for i, c in enumerate(prefix) if c]
    return {"len": len(prefix), "nonzero": nz}


def expand(comp):
    p = [0] * comp["len"]
    for i, c in comp["nonzero"]:
        p[i] = c
    return p


def out_hash(arrs):
    h = hashlib.sha1()
    for a in arrs:
        a = np.ascontiguousarray(a)
        h.update(str(a.shape).encode())
        h.update(a.tobytes())
    return h.hexdigest()[:16]


def explore(fn, team, bound, check, first_dev_range=None, max_exec=None, preempt_only=False, kinds=None,
            time_budget=None):
    """Enumerate every schedule with at most `bound` deviations from the canonical
    non-preemptive schedule (choice 0 everywhere).  check(run, prefix) -> failure dict or None.
    first_dev_range=(lo, hi) restricts the index of the FIRST deviation (for sharding).
    Returns stats dict."""
    import time as _time

    t_start = _time.time()
    kindset = None if kinds is None else set(ord(k) for k in kinds)
    stats = {"executions": 0, "points_max": 0, "deadlocks": 0, "failures": [], "capped": False,
             "outputs": set(), "kinds": {}}
    root = execute(fn, (), team)
    stats["executions"] += 1
    stats["points_max"] = root.npoints
    for k in root.kind:
        stats["kinds"][chr(k)] = stats["kinds"].get(chr(k), 0) + 1
    f = check(root, [])
    if f:
        stats["failures"].append(f)
    if root.npoints > TRACE_CAP:
        stats["capped"] = True
    stack = []
    max_children = 200000

    def push_children(run, plen, devs):
        if devs >= bound:
            return
        lo = plen
        hi = min(run.npoints, len(run.nen))
        if devs == 0 and first_dev_range is not None:
            lo = max(lo, first_dev_range[0])
            hi = min(hi, first_dev_range[1])
        idx = np.arange(lo, hi)
        ok = run.nen[lo:hi] > 1
        if preempt_only:
            ok &= run.me[lo:hi] > 0
        if kindset is not None:
            ok &= np.isin(run.kind[lo:hi], list(kindset))
        idx = idx[ok]
        if idx.size > max_children:
            idx = idx[:max_children]
            stats["capped"] = True
        # children share the parent's arrays: (parent choices, parent enabled counts, index, alternative)
        for i in idx[::-1]:
            for alt in range(int(run.nen[i]) - 1, 0, -1):
                stack.append((run.choice, run.nen, int(i), alt, devs + 1))

    push_children(root, 0, 0)
    while stack:
        if (max_exec is not None and stats["executions"] >= max_exec) or (
                time_budget is not None and _time.time() - t_start > time_budget):
            stats["capped"] = True
            break
        pch, pnen, i, alt, devs = stack.pop()
        prefix = [int(c) for c in pch[:i]] + [alt]
        expect_nen = pnen[:i + 1]
        run = execute(fn, prefix, team)
        stats["executions"] += 1
        stats["points_max"] = max(stats["points_max"], run.npoints)
        # replay determinism: the prefix must see the same enabled-set sizes as when it was recorded
        m = min(len(expect_nen), len(run.nen))
        if run.status & 2 or not np.array_equal(run.nen[:m], expect_nen[:m]):
            stats["failures"].append({"kind": "divergence", "prefix": _compress(prefix),
                                      "msg": "schedule prefix did not replay deterministically: " + run.message})
            continue
        f = check(run, _compress(prefix))
        if f:
            stats["failures"].append(f)
            if len(stats["failures"]) > 20:
                stats["capped"] = True
                break
        push_children(run, len(prefix), devs)
    return stats


def region_functions():
    """Names of the outlined OpenMP region functions entered since the last clear (coverage)."""
    L = lib()
    buf = (ctypes.c_void_p * 2048)()
    n = min(L.vgomp_get_fns(buf, 2048), 2048)
    names = set()

    class DlInfo(ctypes.Structure):
        _fields_ = [("dli_fname", ctypes.c_char_p), ("dli_fbase", ctypes.c_void_p),
                    ("dli_sname", ctypes.c_char_p), ("dli_saddr", ctypes.c_void_p)]

    libc = ctypes.CDLL(None)
    libc.dladdr.argtypes = [ctypes.c_void_p, ctypes.POINTER(DlInfo)]
    for i in range(n):
        info = DlInfo()
        if libc.dladdr(buf[i], ctypes.byref(info)) and info.dli_fbase:
            names.add("%s+0x%x" % (os.path.basename(info.dli_fname.decode()), (buf[i] or 0) - info.dli_fbase))
    return names


def all_region_functions(build_dir, libs=("libmcider.so", "libfft_wrapper.so", "libnumint.so")):
    """All outlined region functions in the instrumented libraries: {lib+offset: symbol}."""
    import subprocess

    out = {}
    for l in libs:
        path = os.path.join(build_dir, l)
        if not os.path.exists(path):
            continue
        txt = subprocess.run(["nm", path], stdout=subprocess.PIPE, text=True).stdout
        for line in txt.splitlines():
            parts = line.split()
            if len(parts) == 3 and "._omp_fn." in parts[2]:
                out["%s+0x%x" % (l, int(parts[0], 16))] = parts[2]
    return out
