"""E1: bounded-exhaustive configuration lattices (DESIGN.md section 3.2)."""
import itertools


class Space:
    def __init__(self, dims, valid=None):
        """dims: ordered list of (name, [values...]) with the simplest/base value first."""
        self.names = [n for n, _ in dims]
        self.values = {n: list(v) for n, v in dims}
        self.valid = valid or (lambda p: True)

    def base(self):
        return {n: self.values[n][0] for n in self.names}

    def deviations(self, k):
        """Base point plus every valid point that differs from it in at most k dimensions,
        ordered by number of deviations, then by alphabet order."""
        out = []
        base = self.base()
        for d in range(0, k + 1):
            for dims in itertools.combinations(self.names, d):
                alts = [self.values[n][1:] for n in dims]
                for combo in itertools.product(*alts):
                    p = dict(base)
                    for n, v in zip(dims, combo):
                        p[n] = v
                    if self.valid(p):
                        out.append(p)
        return out

    def product(self, dims, fixed=None):
        base = self.base()
        if fixed:
            base.update(fixed)
        out = []
        for combo in itertools.product(*[self.values[n] for n in dims]):
            p = dict(base)
            for n, v in zip(dims, combo):
                p[n] = v
            if self.valid(p):
                out.append(p)
        return out

    @staticmethod
    def dedupe(points):
        seen = set()
        out = []
        for p in points:
            k = tuple(sorted((a, repr(b)) for a, b in p.items()))
            if k not in seen:
                seen.add(k)
                out.append(p)
        return out

    def count_edges(self, points):
        """Number of unordered pairs of visited points differing in exactly one dimension."""
        keys = [tuple(repr(p[n]) for n in self.names) for p in points]
        index = {}
        n_edges = 0
        for k in keys:
            for i in range(len(k)):
                masked = k[:i] + ("*",) + k[i + 1:]
                index.setdefault(masked, 0)
                n_edges += index[masked]
                index[masked] += 1
        return n_edges


def tag(p, names=None):
    names = names or sorted(p)
    return ";".join("%s=%s" % (n, p[n]) for n in names if n in p)
