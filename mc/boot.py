"""Process bootstrap: deterministic environment + redirect CiderPress's library loader
to /verif/build/<variant>/ without touching /repo (DESIGN.md section 2)."""
import os
import sys

VERIF = os.path.dirname(os.path.dirname(os.path.abspath(__file__)))
if VERIF not in sys.path:
    sys.path.insert(0, VERIF)

_CURRENT = {"dir": None, "variant": None}

# VERIF_REPO (default /repo) lets the same checks run against another checkout of the package, e.g. a scratch
# worktree carrying a seeded change, without touching /repo; its libraries are built into a separate directory.
REPO = os.environ.get("VERIF_REPO", "/repo")
if REPO != "/repo" and REPO not in sys.path:
    sys.path.insert(0, REPO)


def det_env(env=None):
    env = dict(os.environ if env is None else env)
    env.setdefault("OMP_NUM_THREADS", "1")
    env.setdefault("OMP_WAIT_POLICY", "passive")  # checks that raise the team size share the cores with 15 other workers
    env.setdefault("OPENBLAS_NUM_THREADS", "1")
    env.setdefault("MKL_NUM_THREADS", "1")
    env.setdefault("NUMBA_NUM_THREADS", "1")
    env["PYTHONHASHSEED"] = "0"
    env.setdefault("NUMBA_CACHE_DIR", os.path.join(VERIF, "build", "numba_cache"))
    env["PYTHONDONTWRITEBYTECODE"] = "1"
    if env.get("VERIF_REPO", "/repo") != "/repo":
        env["PYTHONPATH"] = env["VERIF_REPO"] + (":" + env["PYTHONPATH"] if env.get("PYTHONPATH") else "")
    env.setdefault("PYTHONWARNINGS", "ignore")
    return env


def use_variant(variant="plain", build_dir=None):
    """Must be called before any ciderpress module that loads a C library is imported."""
    import numpy

    if build_dir is None:
        from mc.build import build

        build_dir = build(variant)
    if _CURRENT["dir"] is not None and _CURRENT["dir"] != build_dir:
        raise RuntimeError("library variant already fixed for this process")
    _CURRENT["dir"] = build_dir
    _CURRENT["variant"] = variant

    def _load(name):
        return numpy.ctypeslib.load_library(name, build_dir)

    import ciderpress.lib
    import ciderpress.lib.load

    ciderpress.lib.load.load_library = _load
    ciderpress.lib.load_library = _load
    return build_dir


def current_build_dir():
    return _CURRENT["dir"]
