"""Generates /verif/MANIFEST.json from the table below (kept in one place so that the
manifest is always schema-valid and in step with the checks that exist)."""
import json
import os

VERIF = os.path.dirname(os.path.dirname(os.path.abspath(__file__)))

CHECKS = {
    "C12": dict(
        engine="E1-config-lattice",
        technique="bounded-exhaustive enumeration of (map class x index assignment x parameter alphabet x input lattice) with complex-step / full-matrix-probing oracles",
        text="Every registered feature-map class under every injective index assignment and the whole parameter alphabet, every class pair sharing raw inputs, and every (slmode x normaliser mix) list are enumerated; derivative routines are compared with complex-step derivatives of the value routines for every raw input, and forward/reverse normaliser passes are compared as full Jacobian matrices (transpose clause).",
        note="Decides the property on the enumerated alphabets (gamma in {0.3,1,2.7}, two scale/center pairs, input lattices inside the admissible domain); trusts numpy complex arithmetic.",
        design="5/C12",
    ),
}

CHECKS["C01"] = dict(
    engine="E1-config-lattice",
    technique="bounded-exhaustive configuration lattice (deviation bound iterated) x complete symmetric-direction basis, Richardson directional derivatives of the real integrator",
    text="Every state of the enumerated configuration lattice (molecule, feature family, semilocal mode, spin, plan, interpolator, evaluators, spin mode, baselines, mixing, normalisation, grid, density matrix) is run through the real CiderNumInt.nr_rks/nr_uks on C libraries compiled from the working tree; tr(vmat E_ij) is compared with the Richardson-extrapolated derivative of excsum for ALL symmetric basis directions per spin (a complete basis, so vmat = grad E is decided for the state), plus symmetry of vmat and nelec against PySCF's own eval_rho.",
    note="Bounded to molecules with nao<=7, positive-definite density matrices, deviation bound 1 (quick) / 2 (thorough) plus full products of the family/spin/mode/evaluator sub-lattices; finite-difference noise 1e-9 vs threshold 2e-7.",
    design="5/C01",
)

NOT_YET = {}


def main():
    props = [json.loads(l) for l in open(os.path.join(VERIF, "properties.jsonl"))]
    checks = []
    na = []
    for p in props:
        cid = p["id"]
        if cid in CHECKS:
            c = CHECKS[cid]
            checks.append({
                "property_id": cid,
                "quick_cmd": "python3 run_check.py %s --tier quick" % cid,
                "thorough_cmd": "python3 run_check.py %s --tier thorough" % cid,
                "evidence_file": "evidence/%s.json" % cid,
                "replay_cmd_template": "python3 run_check.py %s --replay {path}" % cid,
                "engine": c["engine"],
                "level_claimed": {"category": "model_checking", "text": c["text"], "design_ref": c["design"]},
                "level_note": c["note"],
                "technique": c["technique"],
            })
        else:
            na.append({"property_id": cid, "reason": NOT_YET.get(cid, "check not built yet in this snapshot of /verif (planned in DESIGN.md section 5); not claimed until its check is silent on the unchanged tree")})
    man = {
        "version": 1,
        "setup_cmd": "python3 run_check.py setup",
        "hooks": {
            "guard": "CIDERPRESS_VERIF",
            "enable": "no source hooks: checks compile /repo/ciderpress/lib from the working tree into /verif/build/<variant>/ and redirect ciderpress.lib.load_library there before importing the package",
            "baseline_off_cmd": "cd /repo && /venv/bin/python -m pytest -ra -q -p no:cacheprovider --timeout=900 --continue-on-collection-errors",
            "source_commits": [],
            "add_only": True,
        },
        "engines": [
            {"name": "E1-config-lattice", "path": "mc/runner.py", "serves_properties": sorted(k for k, v in CHECKS.items() if v["engine"].startswith("E1")), "kind_free_text": "bounded-exhaustive enumeration of configuration lattices and input alphabets with complete-basis probing oracles"},
            {"name": "E2-history-bfs", "path": "mc/runner.py", "serves_properties": sorted(k for k, v in CHECKS.items() if v["engine"].startswith("E2")), "kind_free_text": "explicit-state breadth-first search over call histories on the real objects, canonical state hashing"},
            {"name": "E3-vgomp-schedules", "path": "shim/vgomp.c", "serves_properties": sorted(k for k, v in CHECKS.items() if v["engine"].startswith("E3")), "kind_free_text": "stateless deviation-bounded schedule exploration of the real C/OpenMP code under a controllable GOMP runtime"},
            {"name": "E4-vfftw", "path": "shim/vfftw.c", "serves_properties": sorted(k for k, v in CHECKS.items() if "E4" in v["engine"]), "kind_free_text": "executable environment model of the FFTW advanced interface with address checking"},
        ],
        "checks": checks,
        "not_applicable": na,
        "notes": "See DESIGN.md. known_findings.json lists recorded findings and fixed defects.",
    }
    with open(os.path.join(VERIF, "MANIFEST.json"), "w") as fh:
        json.dump(man, fh, indent=1)
    print("MANIFEST.json: %d checks, %d not claimed" % (len(checks), len(na)))


if __name__ == "__main__":
    main()
