"""Generates /verif/MANIFEST.json from the table below (kept in one place so that the
manifest is always schema-valid and in step with the checks that exist)."""
import json
import os

VERIF = os.path.dirname(os.path.dirname(os.path.abspath(__file__)))

CHECKS = {
    "C12": dict(
        engine="E1-config-lattice",
        technique="bounded-exhaustive enumeration of (map class x index assignment x parameter alphabet x input lattice) with complex-step / full-matrix-probing oracles",
        text="Every registered feature-map class under every index assignment (coincident indices included where the slots share a domain) and the whole parameter alphabet (densities from below the 1e-10 floor of the semilocal-aware maps to 40), every class pair sharing raw inputs, and every (slmode x normaliser mix) list are enumerated; derivative routines are compared with complex-step derivatives of the value routines for every raw input, and forward/reverse normaliser passes are compared as full Jacobian matrices (transpose clause).",
        note="Statelessness: a value call at other points between two derivative calls must leave the derivative unchanged (maps are evaluated for both spin channels before either is differentiated). Decides the property on the enumerated alphabets (gamma in {0.3,1,2.7}, two scale/center pairs, input lattices inside the admissible domain); trusts numpy complex arithmetic.",
        design="5/C12",
    ),
}

CHECKS["C01"] = dict(
    engine="E1-config-lattice",
    technique="bounded-exhaustive configuration lattice (deviation bound iterated) x complete symmetric-direction basis, Richardson directional derivatives of the real integrator",
    text="Every state of the enumerated configuration lattice (molecule, feature family, semilocal mode, spin, plan, interpolator, evaluators, spin mode, baselines, mixing, normalisation, grid, density matrix) is run through the real CiderNumInt.nr_rks/nr_uks on C libraries compiled from the working tree; tr(vmat E_ij) is compared with the Richardson-extrapolated derivative of excsum for ALL symmetric basis directions per spin (a complete basis, so vmat = grad E is decided for the state), plus symmetry of vmat and nelec against PySCF's own eval_rho. The base molecule has generally contracted shells (NCTR = 2); a d-shell molecule is included for the SDMX families; a candidate failure is re-decided with a third finite-difference step; for models whose multiplicative baseline is not density weighted ('ONE') grid points with density below 1e-6 carry zero weight (fixed mask).",
    note="Models with fractional-Laplacian features (families FL, FL0, VJ+FL, FL0+SDMX) are in the lattice: NotImplementedError counts as rejection, any other exception on this valid input is reported (one known finding: the NLOF integrators raise AttributeError before computing anything). Bounded to molecules with nao<=7, positive-definite density matrices, deviation bound 1 (quick) / 2 (thorough) plus full products of the family/spin/mode/evaluator sub-lattices; finite-difference noise 1e-9 vs threshold 2e-7.",
    design="5/C01",
)

CHECKS["C04"] = dict(
    engine="E1-config-lattice",
    technique="full product of evaluator lists x spin modes x nspin x baselines x rhocut, Richardson differentiation of the real evaluators w.r.t. every input",
    text="The full product of evaluator lists (Python kernel, C squared-exponential kernels incl. constant-scaled, antisymmetric and spin variants, spline sets, linear, lists of several accumulating into shared buffers) x SEP/NPOL/POL x nspin x every native baseline code (multiplicative and additive, incl. the default None) x rhocut, and the libxc-backed variant with every code of the libxc tables (incl. SS_/OS_ splits), is evaluated on a 162-point lattice; dres (and vrho/vsigma/vtau for MappedXC2) is compared with Richardson-extrapolated derivatives of res with respect to every (spin, feature) input. Evaluator-level states check buffer accumulation, batch independence around the internal chunk size 2000, and the evaluator's own gradient.",
    note="Every model is also called with the same values in other memory layouts (samples-major storage viewed feature-major, every second column of a wider array, strided density-tuple entries): same result or a rejection. Lattice stays inside the admissible feature domain, away from kinks and cutoff thresholds; NNEvaluator excluded (no torch). Quick tier = full products of two sub-lattices; thorough = the full product.",
    design="5/C04",
)
CHECKS["C07"] = dict(
    engine="E1-config-lattice",
    technique="edge relations on the nspin edge of the configuration lattice, end to end and layer by layer, on the real integrators/generators/plans",
    text="For every enumerated configuration (full products family x semilocal mode x spin mode, spin mode x evaluator x baseline, spin mode x baseline x mixing; deviations<=1 otherwise) the three spin relations (closed shell, label swap, separable splitting) are evaluated between the nr_rks and nr_uks realisations, for energy, both potential matrices and nelec; the same relations are evaluated at each layer that carries an nspin factor (semilocal plan incl. its potential, exponent functions and their derivatives, NLDF generators for all versions/plans/rho_mult incl. the reverse pass, SDMX generators, native and libxc model evaluators).",
    note="Model level: with a cutoff, the two-equal-channel call must zero exactly the points the single-channel call zeroes (density lattice on both sides of rhocut and rhocut/2). Tolerance 1e-8 relative (measured <= 1.3e-9 over seeds 0-3, 7 and the thorough lattice: the 1e-16 regularisers of s^2/alpha are not spin-scaling invariant and show in the diffuse tail of the base molecule), 2e-8 for libxc-backed baselines (libxc applies its density threshold per spin), 1e-7 for the not density-weighted 'ONE' baseline (evaluated with the fixed tail mask of C01).",
    design="5/C07",
)

CHECKS["C05"] = dict(
    engine="E1-config-lattice",
    technique="complete-basis (full matrix) probing of every forward/backward routine pair of the real C/Python code over enumerated layouts, offsets/strides and thread counts",
    text="For every operator pair of the nonlocal pipeline (angular grid <-> spherical harmonics, radial grid <-> orbital basis for input and output bases, convolution multiply for j/i/ij/k collections, spline projections incl. the l=1 fills, grid interpolation incl. l+1 terms for both interpolator back ends, coefficient transforms for both plans and both coefficient orders, the composed forward/backward convolution, SDMX orbital contraction and shell-to-alpha l=1 contraction) and every enumerated layout, the forward routine is applied to every unit vector of its domain and the backward routine to every unit vector of its codomain; the two full matrices must be transposes entrywise, A(0)=0, additivity, and nothing outside the addressed offset/stride block is written. Large layouts (3 x 5810 and 2 x 3470 point atoms, so that one radial shell holds thousands of points): all unit vectors of the small input space through the forward routine, the backward routine on 34-40 block-indicator / boundary / dense probe vectors.",
    note="SDMX contractions also for point counts that the team does not divide (fewer points than threads; per-thread quotient a multiple of 8 with remainder) and for generally contracted shells with l >= 1; all molecules in generic position. Layouts bounded (natm<=3, lmax<=3, <=8 shells, nalpha<=6); tolerance 64 eps ||A|| sqrt(dim); thread counts 1-3 under libgomp (schedules are C10).",
    design="5/C05",
)

CHECKS["C10"] = dict(
    engine="E3-vgomp-schedules",
    technique="stateless deviation-bounded schedule exploration (CHESS-style) of the real C/OpenMP code under a controllable GOMP runtime; TSan race candidates promoted to scheduling points",
    text="Every Python-reachable OpenMP entry point of the C back end is closed with a small driver and run on C code compiled from the working tree against vgomp, a GOMP-ABI runtime in which exactly one team member runs at a time: every schedule with at most d deviations from the canonical schedule (region start, barriers, each dynamic chunk hand-out, single, critical, thread exit; d=1 always to completion; in the thorough tier d=2 under a 60 s budget per body, completion reported per body; teams 2 and 3) is executed and its outputs compared bitwise with the team-of-one run, with deadlock and work-sharing invariants checked by the runtime; team sizes 1..16 under five canonical policies incl. end-to-end nr_rks/nr_uks; real libgomp at several thread counts x repetitions; and a separate free-running ThreadSanitizer pass (members start together, chunks handed out fairly, work-share bookkeeping invisible to the detector) whose reports in repository code become extra scheduling points, one before and one after each racing access, explored the same way on the attributed body and on a priority list of bodies that execute the racing code, pruned two-atom grids first (a race is a violation iff some explored schedule changes an output).",
    note="Hand-partitioned reductions (contract_grad_terms_parallel) are driven at array lengths below, at and above every team size (1..130 sample in quick, every length 1..140 in thorough). Real-runtime pass also with OMP_THREAD_LIMIT below OMP_NUM_THREADS (team smaller than omp_get_max_threads()); one failure per configuration there (a race surfaces in different bodies from run to run). Fractional-Laplacian callbacks run inside PySCF's own parallel loop and are covered by that pass only (schedules sampled, not enumerated). Synchronisation-granularity interleavings plus racing accesses, sequential consistency; nr_numint.c, pbc_tools.c and GPAW-only/caller-less routines are not driven (the evidence lists every OpenMP region function and whether it was entered).",
    design="5/C10, 3.4, appendix A",
)
CHECKS["C14"] = dict(
    engine="E2-history-bfs",
    technique="explicit-state BFS over save/load format chains on the real classes and files, canonical state = dict-form/evaluation hash; enumerated negative alphabet",
    text="From initial objects enumerating every registered feature-map class x parameter alphabet, the serialisable evaluator, eight whole-model compositions (MappedXC/MappedXC2, all spin modes, several evaluator kinds, two kernels) and RHF/UHF analyzers, every chain of save/load formats up to depth 3 (dict, FeatureList dict/YAML, evaluator dict/YAML, model YAML/joblib with inferred and explicit format, analyzer HDF5/dict) is executed on real files; every file cycle first writes and loads a DIFFERENT object at the same path (overwrite after load); after every cycle the type and the bit-identical evaluation (value and derivative) are checked and the dict form must be a fixed point. Every unknown code, missing key, unsupported extension/format and non-model file must raise.",
    note="Files written by this version only; an object whose save routine raises counts as 'format unsupported for this object'.",
    design="5/C14",
)
CHECKS["C19"] = dict(
    engine="E2-history-bfs",
    technique="explicit-state BFS over build/prune/reset/reconfigure histories of the real CiderGrids object, canonical state = settings + grid hash, invariants in every state",
    text="For each molecule (repeated and unique elements, an element re-occurring after another one, a third-period element) and lmax in {4, 6, 10, 12}, histories of build(sort, non0tab), build(mol = the same atoms in reverse order) on the object constructed for the original order, repeated prune_by_density_ at several thresholds, reset and setting changes (level, sizes, per-element sizes, pruning scheme, alignment) are explored breadth first to depth 3 on one real CiderGrids object while the same history is applied to a pyscf Grids reference; in every distinct state the point/weight multisets must be bitwise equal, the index map injective and consistent with weights, owning atoms, radial shells and direction tables, padding weights zero, tables monotone/consistent, and the per-shell real spherical harmonics orthonormal under the shell quadrature up to the supported degree and zero above.",
    note="Molecules include an element re-occurring after another, a third-period element and labelled atoms (H1, H@2). Default radial scheme/Becke partition; full_lmax passed explicitly.",
    design="5/C19",
)
CHECKS["C20"] = dict(
    engine="E1-config-lattice+E4-vfftw",
    technique="exhaustive plan enumeration with complete input bases against numpy.fft, on libfft_wrapper built against an executable FFTW model with address checking (model validated against numpy)",
    text="Every plan over dims of rank 1-3 from {1..4} (thorough {1..5}) plus rank-4 tuples x forward/backward x c2c/r2c x in/out of place x batch first/last x 1-3 transforms is built through the real FFTWrapper; plans with <=64 inputs are probed with every unit vector (c2r: images of all real unit vectors), others with a dense vector and edge unit vectors; outputs must equal numpy's unnormalised DFT, shapes as advertised, forward.backward = N.identity, wrong shapes raise, two calls on one plan keep the first result intact and the caller's input unchanged, an earlier output fed back as input is transformed correctly, equivalent input representations (Fortran order, other dtypes) give the same transform, and the FFTW model's address checker and red zones stay silent. The model is validated against numpy on explicit-embed/stride plans and shown to fire on an undersized buffer.",
    note="Every plan is also run with OpenMP teams of 2, 3, 7 (thorough: 2, 3, 4, 5, 7, 16) threads in the wrapper's copy loops (static partitions: a configuration dimension, not a schedule). FFTW replaced by vfftw (documented semantics of the advanced interface); the real FFTW/MKL binaries are not in the image.",
    design="5/C20, 3.5, appendix B",
)

CHECKS["C09"] = dict(
    engine="E2-history-bfs",
    technique="explicit-state BFS over call histories on the real integrator / generator objects, canonical state hashing, differential oracle against fresh objects",
    text="Three machines. (1) One real CiderNumInt-family object per feature family is driven through every history (depth 3 quick / 4 thorough) over 13 operations: restricted and unrestricted calls with one, two or three density matrices, another molecule, a new grids object, the same grids object rebuilt in place, a tiny memory budget (several blocks), reset; after every history the last operation's (nelec, excsum, vmat) must equal the same operation on fresh objects, batch elements must equal separate calls, and all caller-owned arrays must be bit-identical. (2) One real NLDF generator is driven through every get_features/get_potential history (depth 4, both spins, two densities, two potentials, both plan types) against the reference model 'the potential belongs to the last feature pass of that spin' realised on fresh generators, with inputs checked for in-place modification. (3) Evaluator chunking around the internal chunk size and aliasing of exponent functions, feature maps, plans and SDMX generators.",
    note="The generator call-history machine runs in SCF mode and in nuclear-gradient mode (atom-ordered input; potential, grid-response density and per-atom force term compared). History depth bounded; PySCF-internal state not in the canonical key; 1e-11 relative.",
    design="5/C09",
)

CHECKS["C18"] = dict(
    engine="E1-config-lattice",
    technique="exhaustive enumeration of feature-family combinations and of a single-fault invalid-argument alphabet; every accepted C entry point executed on an AddressSanitizer build under the controlled OpenMP runtime",
    text="(i) The full product of semilocal mode x NLDF class (9) x fractional-Laplacian class (4) x SDMX class (7) x rho_mult is constructed and nfeat, get_feat_loc, the scaling-power list, the UEG vector and the recommended-normaliser list are compared for length, plus with normalisers assigned; for every family x mode x spin the counts are compared with what the semilocal plan, the NLDF generator (forward and reverse) and the SDMX generator actually return. (ii) For each constructor/wrapper a single-fault alphabet (249 invalid argument values: unknown strings, wrong lengths and types, zero/negative parameters, lambda<=1, index pairs out of range, wrong-shaped / non-contiguous / wrong-dtype arrays, size mismatches, exponent above alpha_max, lmax misuse) must raise; for the index-pair arguments of NLDFSettingsVI / VIJ / FracLaplSettings every pair in {-2..3}^2 is tried for every combination of independently varied list lengths (accepted iff both indexes address an existing vector spec). (iii) Every harness body of C10 plus stride/offset variants, end-to-end integrator calls, plan bodies with a dense spline table and accepted out-of-ladder exponents, and FFT plans run on the -fsanitize=address build at team sizes 1 and 3; any ASan report or crash is a violation.",
    note="Plans restricted to a subset of the exponent ladder (proc_inds) must return exactly the corresponding columns of the full plan and stay inside NaN-guarded output buffers (and run under ASan). Single faults only; ASan sees out-of-bounds accesses of the instrumented libraries, not uninitialised reads; NotImplementedError from get_reasonable_normalizer counts as 'not available'.",
    design="5/C18",
)

CHECKS["C08"] = dict(
    engine="E1-config-lattice",
    technique="full product of per-point boundary alphabets evaluated through the real (pointwise) eval_xc_cider for every state of the configuration lattice; generators and integrators on densities with exact zeros / denormals",
    text="Because eval_xc_cider is pointwise in the grid index, one call on an array holding the full product of per-point alphabets (16 density values incl. 0, denormal, both sides of every cutoff 1e-10 / rhocut/2 / rhocut, 1e6; zero, tiny, von-Weizsaecker-consistent and huge gradients; tau from tau_W to 1e10 tau_ueg; nonlocal slots 0 / UEG value / huge / negative; for nspin=2 every point paired with itself, a typical point and zero) decides all of them; this is repeated for the full products semilocal mode x baseline (native and libxc) x spin mode x nspin, family x evaluator x normalisation x nspin, family x mode x mix x rho_mult. Every output must be finite and, with no semilocal part, points well below the cutoff must have exactly zero energy density and potentials; for spin-separable (SEP) models and nspin=2 this is also required per channel (where 2 rho_s is well below the cutoff, every derivative with respect to channel s is exactly zero, whatever the other channel holds). NLDF and SDMX generators are run on real grids with zero / denormal / step densities and far or coincident points, and nr_rks/nr_uks on atoms with grids reaching hundreds of Bohr.",
    note="Admissible inputs only (rho>=0, tau>=tau_W); exact-zero clause asserted below 0.2*rhocut; a libxc additive baseline is semilocal, not ML energy.",
    design="5/C08",
)

CHECKS["C06"] = dict(
    engine="E2-history-bfs",
    technique="explicit-state BFS over the octahedral group orbit (generators C4z, C4x, inversion) x atom permutations x translations on fresh real objects, invariance/covariance invariants in every state",
    text="From the identity the 48 octahedral operations are reached breadth first through three generators; every state (and its compositions with every atom permutation and two translations) builds the transformed molecule, the signed-permutation AO representation U, fresh grids and a fresh calculator, and must reproduce the identity state's XC energy and electron count to 2e-11, vmat' = U vmat U^T to 2e-10, and per-point NLDF features at co-moved grid points to 1e-9, for semilocal, NLDF j/ij/k (incl. vector features), SDMX with l=1 terms and combined families, restricted and unrestricted. Arbitrary rotations (three Euler triples) are decided to quadrature accuracy with the discrepancy required to shrink under grid refinement.",
    note="Per-point SDMX and fractional-Laplacian features involve no grid quadrature: they must be invariant to 1e-9 (measured 1e-14) at co-moved points under arbitrary proper and improper rotations, translations and atom relabelling. All fixture molecules are in generic position (no atom at the origin or on an axis). s/p-only basis sets; for energies and NLDF features exactness only for operations that map the atom-centred Lebedev grids onto themselves.",
    design="5/C06",
)
CHECKS["C13"] = dict(
    engine="E1-config-lattice",
    technique="enumeration of settings classes x spec/parameter/rho_mult/level alphabets x density values against independent quadrature of the documented definitions",
    text="For every NLDF spec of versions j, i, ij, k (incl. erf_rinv and the vector dots), both semilocal levels, both rho_mult options and two parameter sets, every SDMX settings class, fractional-Laplacian settings (exponents at and on both sides of every special value of the closed form, every feature group present/absent; Fermi-sphere quadrature of the documented operators incl. the F^dd dot features, isotropy for the vector contractions) and every semilocal mode, the reported uniform-gas value at five densities is compared with an independent evaluation of the documented definition (1-D radial quadrature of the kernels of docs/features/nldf.rst with my own transcription of the exponent formula; nested Gauss-Legendre quadrature of the documented SDMX integrals for the uniform-gas density matrix; the real semilocal plan on constant arrays); the values must also obey their declared scaling powers; FeatureSettings.ueg_vector(with_normalizers=True) must equal the raw vector pushed through the real normaliser list, and the list's reported factors must equal what the forward pass applies, for every normaliser class and semilocal mode.",
    note="SDMXFull (no closed form): analytic projections of the uniform-gas density matrix pushed through the real plan's fit matrices on a dense ladder; ratios inserted in unsorted order. Density alphabet {0.01,0.3,1,7,100}; SDMX constants compared at 2e-4 (tabulated constants are accurate to 4e-5 for j=2).",
    design="5/C13",
)

CHECKS["C15"] = dict(
    engine="E1-config-lattice",
    technique="enumeration of kernel expression trees (leaf class x hyper-parameter alphabet x binary/unary compositions) with symmetry, diag, PSD, composition-algebra, spin-exchange and Richardson-gradient oracles",
    text="Every kernel class of models/kernels.py (RBF iso/aniso/fixed, antisymmetric RBF, linear, polynomial orders 1-4 with and without factorial and anisotropic gamma, additive kernels of orders 1-4 incl. fixed scale/length scale, ARBF-V2, additive linear-times-RBF, additive rational quadratic, partial/single/quadratic variants, constant, white and density-noise kernels, subset kernels with list/slice/stepped indices, spin-symmetrised kernels) with hyper-parameters at low/mid/high values is enumerated as a leaf, in every + and x composition of a basic pool (all leaves in thorough; depth 3 there), under integer powers, constants, linear transforms, active-dimension and spin-symmetrising wrappers; each tree must satisfy k(X,Y)=k(Y,X)^T, diag=diag k(X,X), positive semi-definiteness, the algebra of its composition, spin-block exchange symmetry, theta-gradients equal to Richardson differences in log-theta with exactly the non-fixed parameters on the last axis, k_and_deriv equal to differences in X, the caller's sample arrays unchanged after every evaluation, and k(X, X) with the same array on both sides equal to k(X); the linear transform wrapper is enumerated in every presence pattern of its optional arguments. DFT-level kernel (dft_kernel.DFTKernel): for SEP / NPOL / POL x nspin x four component kernels x control-point reduction on/off, get_kctrl, get_k and get_k_and_deriv against an own evaluation of the documented definition (polarised kernel k_aa k_bb + k_ab k_ba) and Richardson differences.",
    note="Fixed sample matrices with coincident rows, a far row (kernel values 1e-40), a row 90 length scales away (exactly 0) and the zero vector; non-finite gradients fail; comparisons element-wise relative; trees to depth 2 (quick) / 3 (thorough). Four legacy-class defects are listed in known_findings.json.",
    design="5/C15",
)

CHECKS["C11"] = dict(
    engine="E1-config-lattice",
    technique="enumeration of mappable kernel classes x index subsets/slices x hyper-parameter and control-point sets, real mapping routines vs the Python kernel sum on a lattice of interior, edge and corner points",
    text="For every mappable kernel class (RBF, constant x RBF, subset RBF with list / closed / open / stepped / start-less slices, antisymmetric RBF built by the package's own helper, spin kernel, KernelEvaluator over RBF / additive / polynomial / composite kernels, linear; spline mapping of subset RBF in 1-3 dimensions and of additive RBF, additive rational-quadratic and additive linear-times-RBF kernels of orders 1-3, alone and multiplied by a subset RBF) the evaluator produced by the real constructors / get_mapped_gp_evaluator_* is compared with sum_a k(x, x_a) alpha_a and its gradient: 1e-11 / 2e-8 for the exact evaluators; for spline-mapped models the value and gradient errors at grid densities 4, 8, 16 must shrink (>= 2x per doubling and >= 8x over two doublings for values, >= 1.5x for gradients) and stay below measured bounds at the default density; index layouts of the two factors (ascending, subset index after the additive ones, unsorted, interleaved) and a feature list whose features have different bounds are enumerated. get_k0_for_mapping of each additive kernel is compared with the factor its own evaluation uses, for three length scales.",
    note="Layouts include several four-index spline terms (two-index subset RBF x second-order additive terms; one-index x third-order) and features with different bounds per index. Evaluation inside the feature bounds only; seeded control points; spline thresholds from measurement.",
    design="5/C11",
)

CHECKS["C17"] = dict(
    engine="E1-config-lattice",
    technique="enumeration of method x density-fitting x feature-family x interpolator x molecule states, every nuclear coordinate decided by Richardson differences of converged SCF energies",
    text="For each state (RKS/UKS incl. an open-shell doublet, density fitting on/off, semilocal GGA and meta-GGA, NLDF versions j / ij / k at both semilocal levels, both onsite interpolators) the SCF is converged to 1e-12 with a synthetic mapped functional, and EVERY component of the analytic gradient with grid response (3 natm components: a complete basis of the force vector) is compared with Richardson-extrapolated central differences of converged SCF energies at displaced geometries to 1e-6 Ha/Bohr (observed 1e-10); the forces must sum to zero to 1e-7 (net torque: quadrature-level bound only, the Lebedev orientations do not rotate with the molecule). Relations that hold exactly for BOTH gradient variants (with and without grid response): exchanging the spin labels of a polarised solution leaves the forces unchanged (1e-8); a closed-shell solution through the unrestricted gradient gives the restricted forces (1e-8); the XC gradient layer functions give the same result when the grid is processed in minimal blocks (1e-9). The gradient without grid response has no sharp value oracle: it must stay within 2e-2 of the full-response gradient on the coarse discretisation (measured <= 6.9e-3) and, in the thorough tier, within 1.5e-3 on a refined discretisation (version k excluded: not converged at affordable settings). SDMX-containing models must raise NotImplementedError.",
    note="Families include several l=1 (vector) feature specs (VI, VIJ2). Small molecules and coarse grids (the identity is grid independent when grid response is included); SCF non-convergence is a harness error.",
    design="5/C17",
)

CHECKS["C16"] = dict(
    engine="E2-history-bfs",
    technique="exhaustive enumeration of add_reactions / reset_reactions / fit histories on the real MOLGP (all orders x all consecutive splits x reset variants) against dense extended-precision linear algebra",
    text="Four synthetic training systems (restricted and spin-polarised, with occupation-derivative data) are written as real HDF5 training files and read by the real store_mol_covs; for five kernel configurations (separable exchange kernel with and without pivoted-Cholesky control-point reduction, non-polarised exchange, exchange + correlation-type kernel, polarised kernel) every order of a four-reaction list (plain energy, exchange-only, stoichiometric with unit/noise_factor/weight and a system listed twice, orbital-derivative entry listed twice), every split of the list into consecutive add_reactions calls and reset / partial-reset variants is executed, and after fit() the labels, noises, per-kernel weights (Kmm^-1 Kmn (K+Sigma)^-1 y with iterative refinement in long double), the training residual (= Sigma applied to the solved reaction weights), order equivariance, the rescaled fit(x) system and compute_likelihood(x) (Gaussian log marginal likelihood) are compared; the per-system covariance, baseline and occupation-derivative integrals are compared with direct grid sums incl. the low-density mask and with Richardson differences.",
    note="Noises >= 0.02 so that the implementation's 1e-9 jitter is below the 1e-5 tolerance; hyper-parameter optimisation not covered.",
    design="5/C16",
)

CHECKS["C02"] = dict(
    engine="E1-config-lattice",
    technique="enumeration of spec family x level x rho_mult x plan x ladder x interpolator x nspin states; fast paths at three refinement levels vs brute-force quadrature of the documented integrals on evaluation-point-centred Becke grids; path-to-path edge relations",
    text="For every allowed spec of versions j, i (scalar and vector, every dot incl. the density gradient), ij and k, at GGA and meta-GGA level, with rho_mult one/expnt, Gaussian and spline plans, etb/zexp ladders, the three interpolator back ends and nspin 1/2 (deviations<=1 plus the full products family x plan x interpolator and family x level x rho_mult; everything in thorough), the features returned by the real generator at ~28 grid points spanning densities above 1e-3 are compared with a brute-force quadrature of the documented integral (own transcription of the kernels and of the exponent formula) on a level-3 Becke grid with an extra centre at the evaluation point; the discrepancy at the finest of three refinement levels must be within min(max(2 x last refinement step, 4e-3), 2e-2) of the feature scale and not be the worst of the three; states that differ only in the interpolation back end must agree to 1e-3 (measured 1.4e-5), states that differ in plan type or ladder to 2e-2; the spin-polarised path is enumerated at both levels and both rho_mult options for the ij and k families. SDMX: the fast module must equal the reference-grade module to 1e-8 and the documented H_j^0, H_j^0d, H_j^1 integrals of the density matrix (times -1/4) to 2e-2 (measured 3e-5 for j=0,1 and <=6e-3 for j=2).",
    note="Fractional-Laplacian orbital features (all four groups, s/p/d and generally contracted shells) are compared at s = 0 and s = 1, where (-Lapl)^s is a differential operator, with PySCF's own orbital derivatives (2e-6 of scale; the package uses one 1F1-spline path for every s; measured 2.5e-8). Definition transcribed from the documentation is trusted; points with density < 1e-3 are outside the claim; the size of the truncation error itself is not claimed, only that it is controllable and converges to the documented integral.",
    design="5/C02",
)

CHECKS["C03"] = dict(
    engine="E1-config-lattice",
    technique="enumeration of settings family x semilocal mode x rho_mult x plan x molecule x lambda in {1/2, 2/3, 3/2, 2}; the real feature pipeline is run on a molecule and on its exactly co-scaled image (exponents x lambda^2, geometry / lambda, grid / lambda, weights / lambda^3, exponent window, cutoffs and length tables co-scaled) and the scaling exponent of every feature is measured pointwise",
    text="Premise n_lambda(r/lambda) = lambda^3 n(r) is asserted to 1e-10. Then (a) every semilocal plan feature at every mode, (b) the CIDER exponent, (c) every NLDF feature of versions j, i (incl. every vector dot), ij, k at GGA/MGGA, rho_mult one/expnt, Gaussian and spline plans, (d) every SDMX family feature, scales with the declared integer power (median measured exponent within 0.05; a wrong table entry is off by >= 1); (e) after the recommended normalisation every declared power is exactly 0 in the tables and the normalised features of the real pipeline change by < 5e-2 of their scale (measured noise <= 2.3e-2; smallest integer mismatch gives >= 0.33); (f) each normaliser class multiplies the power by the documented amount; (g) a mapped exchange model with LDA_X baseline reading normalised features obeys E_x[n_lambda] = lambda E_x[n] (1e-9 semilocal, 1e-2 nonlocal).",
    note="The auxiliary even-tempered ladder stays snapped to integer powers of beta in the scaled run: that snapping is the measured noise floor. Fractional-Laplacian features (scalar, l=1, F^d with nd1 != nk1, F^dd) are evaluated through the package's own descriptor getter (FLNumInt + FracLaplPlan), where the relation holds to rounding (measured spread 2e-14, tolerance 1e-8), raw and after the recommended normalisation; HybridSettings has no evaluator and is covered only through its declared table.",
    design="5/C03",
)

NOT_YET = {}


def main():
    props = [json.loads(l) for l in open(os.path.join(VERIF, "properties.jsonl"))]
    checks = []
    na = []
    for p in props:
        cid = p["id"]
        if cid in CHECKS:
            c = CHECKS[cid]
            checks.append({
                "property_id": cid,
                "quick_cmd": "python3 run_check.py %s --tier quick" % cid,
                "thorough_cmd": "python3 run_check.py %s --tier thorough" % cid,
                "evidence_file": "evidence/%s.json" % cid,
                "replay_cmd_template": "python3 run_check.py %s --replay {path}" % cid,
                "engine": c["engine"],
                "level_claimed": {"category": "model_checking", "text": c["text"], "design_ref": c["design"]},
                "level_note": c["note"],
                "technique": c["technique"],
            })
        else:
            na.append({"property_id": cid, "reason": NOT_YET.get(cid, "check not built yet in this snapshot of /verif (planned in DESIGN.md section 5); not claimed until its check is silent on the unchanged tree")})
    man = {
        "version": 1,
        "setup_cmd": "python3 run_check.py setup",
        "hooks": {
            "guard": "CIDERPRESS_VERIF",
            "enable": "no source hooks: checks compile /repo/ciderpress/lib from the working tree into /verif/build/<variant>/ and redirect ciderpress.lib.load_library there before importing the package",
            "baseline_off_cmd": "cd /repo && /venv/bin/python -m pytest -ra -q -p no:cacheprovider --timeout=900 --continue-on-collection-errors",
            "source_commits": [],
            "add_only": True,
        },
        "engines": [
            {"name": "E1-config-lattice", "path": "mc/runner.py", "serves_properties": sorted(k for k, v in CHECKS.items() if v["engine"].startswith("E1")), "kind_free_text": "bounded-exhaustive enumeration of configuration lattices and input alphabets with complete-basis probing oracles"},
            {"name": "E2-history-bfs", "path": "mc/runner.py", "serves_properties": sorted(k for k, v in CHECKS.items() if v["engine"].startswith("E2")), "kind_free_text": "explicit-state breadth-first search over call histories on the real objects, canonical state hashing"},
            {"name": "E3-vgomp-schedules", "path": "shim/vgomp.c", "serves_properties": sorted(k for k, v in CHECKS.items() if v["engine"].startswith("E3")), "kind_free_text": "stateless deviation-bounded schedule exploration of the real C/OpenMP code under a controllable GOMP runtime"},
            {"name": "E4-vfftw", "path": "shim/vfftw.c", "serves_properties": sorted(k for k, v in CHECKS.items() if "E4" in v["engine"]), "kind_free_text": "executable environment model of the FFTW advanced interface with address checking"},
        ],
        "checks": checks,
        "not_applicable": na,
        "notes": "See DESIGN.md. known_findings.json lists recorded findings and fixed defects.",
    }
    with open(os.path.join(VERIF, "MANIFEST.json"), "w") as fh:
        json.dump(man, fh, indent=1)
    print("MANIFEST.json: %d checks, %d not claimed" % (len(checks), len(na)))


if __name__ == "__main__":
    main()
